#!/bin/bash
# dev helper: run entries of one harness file set
ov=""
for f in /verif/harness/v2/*.go; do b=$(basename $f); case $b in *_test.go) continue;; esac; ov="$ov -overlay /repo/v2/zz_verif_$b=$f"; done
exec /verif/bin/gosym -dir /repo/v2 $ov "$@"
