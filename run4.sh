#!/bin/bash
ov=""
for f in /verif/harness/cli_root/*.go; do b=$(basename $f); case $b in *_test.go) continue;; esac; ov="$ov -overlay /repo/zz_verif_$b=$f"; done
exec /verif/bin/gosym -dir /repo $ov "$@"
