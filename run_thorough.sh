#!/bin/bash
# runs every thorough check sequentially; prints one summary line each
cd "$(dirname "$0")"
export GOFLAGS=-mod=mod GOPROXY=off
(cd engine && go build -o ../bin/gosym .) || exit 2
for id in ${1:-C01 C02 C03 C04 C05 C06 C07 C08 C09 C10 C11 C12 C13 C14 C15 C17 C18}; do
  s=$(date +%s)
  timeout 7200 ./verif check $id --tier thorough > /tmp/thorough_$id.log 2>&1
  rc=$?
  echo "THOROUGH $id exit=$rc wall=$(( $(date +%s) - s ))s $(tail -1 /tmp/thorough_$id.log | cut -c1-160)"
  grep "^INCONCLUSIVE\|^BROKEN\|^VIOLATION" /tmp/thorough_$id.log | head -5 | cut -c1-300
done
