"""Per-property check configuration: which harness entries run at which bounds."""

BASE_ASSUMPTIONS = [
    "bounded: every claim is limited to the bounds listed under coverage.bounds; anything larger is outside the claim",
    "FNV-1a is idealised as an injective function of the hashed byte string (real 64-bit collisions are outside the claim); the relative order of symbolic hash codes is unconstrained",
    "encoding/json is a structural model (Marshal injective on value trees, Unmarshal(Marshal(v)) = v, tokens single-line and self-delimiting); concrete texts go through the real codec",
    "fmt/errors text is opaque; sort.Sort is insertion sort over the real Len/Less/Swap; slice growth follows the real runtime (same toolchain)",
    "numbers are finite, non-NaN float64",
]

CHECKS = {
    "C14": {
        "quick": [
            {"pkg": "cli_v2", "entries": ["VerifC14Diff"], "params": {"N": 2, "COLOR": 1}},
            {"pkg": "cli_v2", "entries": ["VerifC14Diff"], "params": {"N": 1, "PRECISION": 1, "FORMATS": 1, "MODES": 1, "DOCS": 3}, "extra": ["-solver", "cvc5"]},
            {"pkg": "cli_v2", "entries": ["VerifC14Patch", "VerifC14Errors", "VerifC14Translate"], "params": {"N": 2}},
            {"pkg": "cli_v2", "entries": ["VerifC14SetKeys", "VerifC14GitDriver", "VerifC14Yaml"], "params": {"N": 2, "KN": 1, "KM": 1}},
            {"pkg": "cli_root", "entries": ["VerifC14Diff", "VerifC14DiffV1"], "params": {"N": 1, "COLOR": 1}},
            {"pkg": "cli_root", "entries": ["VerifC14Patch", "VerifC14Errors", "VerifC14PatchV1", "VerifC14Translate"], "params": {"N": 1}},
            {"pkg": "cli_root", "entries": ["VerifC14SetKeys", "VerifC14GitDriver", "VerifC14Yaml"], "params": {"N": 2, "KN": 1, "KM": 1}},
            {"pkg": "cli_v2", "entries": ["VerifC14ErrMatrix"], "params": {"N": 1}},
            {"pkg": "cli_root", "entries": ["VerifC14ErrMatrix"], "params": {"N": 1, "V1": 1}},
        ],
        "thorough": [
            {"pkg": "cli_v2", "entries": ["VerifC14ErrMatrix"], "params": {"N": 2}},
            {"pkg": "cli_root", "entries": ["VerifC14ErrMatrix"], "params": {"N": 2, "V1": 1}},
            {"pkg": "cli_v2", "entries": ["VerifC14Diff"], "params": {"N": 3, "COLOR": 1}},
            {"pkg": "cli_v2", "entries": ["VerifC14Diff"], "params": {"N": 1, "PRECISION": 1, "FORMATS": 1, "MODES": 1, "DOCS": 3}, "extra": ["-solver", "cvc5"]},
            {"pkg": "cli_v2", "entries": ["VerifC14Patch", "VerifC14Errors", "VerifC14Translate"], "params": {"N": 3}},
            {"pkg": "cli_v2", "entries": ["VerifC14SetKeys", "VerifC14GitDriver"], "params": {"N": 2, "KN": 2, "KM": 1}},
            {"pkg": "cli_root", "entries": ["VerifC14SetKeys", "VerifC14GitDriver", "VerifC14Yaml"], "params": {"N": 2, "KN": 1, "KM": 1}},
            {"pkg": "cli_root", "entries": ["VerifC14Diff", "VerifC14DiffV1"], "params": {"N": 2, "COLOR": 1}},
            {"pkg": "cli_root", "entries": ["VerifC14Patch", "VerifC14Errors", "VerifC14Translate", "VerifC14PatchV1"], "params": {"N": 2}},
        ],
        "covers": ["c14.diff.files", "c14.diff.stdin", "c14.diff.outfile", "c14.patch", "c14.errors", "c14.translate.jd2patch", "c14.translate.patch2jd", "c14.translate.jd2merge", "c14.translate.merge2jd", "c14.v1diff.files", "c14.v1diff.stdin", "c14.v1diff.outfile", "c14.v1patch", "c14.setkeys", "c14.setkeys.bad", "c14.gitdriver", "c14.gitdriver.bad", "c14.yaml.diff", "c14.yaml.patch", "c14.yaml.json2yaml", "c14.yaml.yaml2json", "c14.errmatrix"],
        "outside": "PARTIAL: both binaries and the top-level binary with -v2=false, JSON input, and YAML input/output under a structural yaml.v2 model (numbers, arrays, objects with keys a,b; the character-level YAML questions are C16's and not applicable); -port and GitHub-action mode are not covered; process start-up, the real flag parser, files and stdio are models in the engine (the native replay runs the real binary)",
        "level_note": "PARTIAL claim (DESIGN.md section 7): main() of /repo/v2/jd and of /repo (with -v2 true and false) is executed in-process by the engine over models of flag, os, fmt, log and ioutil (flags registered by the real flag.X calls of the package initialiser, a model of flag.Parse, virtual files / stdin / stdout, os.Exit ends main); expected output and status are computed in the harness with library calls and the flag->option mapping of README.md. Counterexamples and sampled paths are replayed by running the real binary as a process.",
        "assumptions": ["CLI: package flag, os, fmt, log, ioutil are models (registered flags, model of flag.Parse incl. -x, -x=v, -x v, --; virtual files; os.Exit ends main); strconv.FormatFloat/ParseFloat round-trip exactly", "yaml.v2 is a structural model like encoding/json (numbers decode to float64 instead of int for integral values: jd's only consumer NewJsonNode converts both to the same number); concrete texts go through the real yaml.v2"],
    },
    "C17": {
        "quick": [
            {"pkg": "lib", "entries": ["VerifC17Flat"], "params": {"N": 3, "M": 2}},
            {"pkg": "lib", "entries": ["VerifC17Flat"], "params": {"N": 2, "M": 3}},
            {"pkg": "lib", "entries": ["VerifC17Docs"], "params": {"KN": 1}},
            {"pkg": "lib", "entries": ["VerifC17Deep"], "params": {"DEPTH": 7, "N": 3}},
            {"pkg": "lib", "entries": ["VerifC17Deep"], "params": {"DEPTH": 3, "N": 3, "CHAINKINDS": 2}},
            {"pkg": "lib", "entries": ["VerifC17KeyedSet"], "params": {"KN": 1, "KM": 1}},
            {"pkg": "lib", "entries": ["VerifC17KeyedSet"], "params": {"KN": 2, "KM": 1, "VK": 2}},
            {"pkg": "lib", "entries": ["VerifC17KeyedSet"], "params": {"KN": 1, "KM": 1, "MIXED": 1, "WRAPS": 1}},
            {"pkg": "lib", "entries": ["VerifC17Nest"], "params": {"N": 1, "INNER": 2, "EMPTYOBJ": 1, "WRAPS": 3}},
            {"pkg": "lib", "entries": ["VerifC17Kinds"], "params": {"N": 2}},
        ],
        "thorough": [
            {"pkg": "lib", "entries": ["VerifC17Flat"], "params": {"N": 3, "M": 3}},
            {"pkg": "lib", "entries": ["VerifC17Docs"], "params": {"KN": 2, "INNER": 2}},
            {"pkg": "lib", "entries": ["VerifC17Deep"], "params": {"DEPTH": 9, "N": 3, "CHAINKINDS": 1}},
            {"pkg": "lib", "entries": ["VerifC17Deep"], "params": {"DEPTH": 5, "N": 2, "CHAINKINDS": 2}},
            {"pkg": "lib", "entries": ["VerifC17KeyedSet"], "params": {"KN": 2, "KM": 1}},
            {"pkg": "lib", "entries": ["VerifC17KeyedSet"], "params": {"KN": 1, "KM": 2, "VK": 2}},
            {"pkg": "lib", "entries": ["VerifC17KeyedSet"], "params": {"KN": 2, "KM": 1, "MIXED": 1, "VK": 2, "WRAPS": 1}},
            {"pkg": "lib", "entries": ["VerifC17Nest"], "params": {"N": 2}},
            {"pkg": "lib", "entries": ["VerifC17Nest"], "params": {"N": 1, "INNER": 2, "EMPTYOBJ": 1, "WRAPS": 3}},
            {"pkg": "lib", "entries": ["VerifC17Kinds"], "params": {"N": 2}},
        ],
        "covers": ["c17.flat.none", "c17.flat.set", "c17.flat.multiset", "c17.flat.merge", "c17.flat.precision", "c17.obj.none", "c17.keyed.setkeys", "c17.void.none",
                   "c17.keyedset.set+setkeys", "c17.nest.none", "c17.nest.set", "c17.nest.multiset", "c17.nest.merge", "c17.nest.set+merge", "c17.nest.multiset+merge",
                   "c17.kinds.none", "c17.kinds.set", "c17.kinds.multiset"],
        "outside": "arrays longer than N; keys other than a,b,c,id,k,p,v; FNV collisions; the top-level binary with -v2=false (C14); under SET + Setkeys, members lacking the key or sharing an identity within one array (outside the property: 'objects identified by keys')",
    },
    "C18": {
        "quick": [
            {"pkg": "lib", "entries": ["VerifC18Patch"], "params": {"N": 2, "KEYS": 3}},
            {"pkg": "lib", "entries": ["VerifC18Merge"], "params": {"D": 0, "EMPTYOBJ": 1}},
            {"pkg": "lib", "entries": ["VerifC18Patch"], "params": {"N": 2, "LONG": 1}},
            {"pkg": "lib", "entries": ["VerifC18Patch"], "params": {"N": 2, "KEYS": 3, "KEYSET": 1, "FAMS": 2}},
            {"pkg": "lib", "entries": ["VerifC18Deep"], "params": {"DEPTH": 7, "SMALLKEYS": 3}},
            {"pkg": "lib", "entries": ["VerifC18Deep"], "params": {"DEPTH": 3, "CHAINKINDS": 2, "ARRS": 1}},
            {"pkg": "lib", "entries": ["VerifC18Kinds"], "params": {"N": 2}},
        ],
        "thorough": [
            {"pkg": "lib", "entries": ["VerifC18Patch"], "params": {"N": 3, "KEYS": 6}},
            {"pkg": "lib", "entries": ["VerifC18Merge"], "params": {"D": 1, "EMPTYOBJ": 1, "ROOTS": 1}},
            {"pkg": "lib", "entries": ["VerifC18Merge"], "params": {"D": 0, "EMPTYOBJ": 1, "INNER": 2}},
            {"pkg": "lib", "entries": ["VerifC18Patch"], "params": {"N": 3, "LONG": 1}},
            {"pkg": "lib", "entries": ["VerifC18Patch"], "params": {"N": 2, "KEYS": 4, "KEYSET": 1, "FAMS": 2}},
            {"pkg": "lib", "entries": ["VerifC18Deep"], "params": {"DEPTH": 9, "SMALLKEYS": 3, "ARRS": 1}},
            {"pkg": "lib", "entries": ["VerifC18Deep"], "params": {"DEPTH": 5, "CHAINKINDS": 2, "ARRS": 1}},
            {"pkg": "lib", "entries": ["VerifC18Kinds"], "params": {"N": 3}},
        ],
        "covers": ["c18.patch", "c18.merge", "c18.deep.patch", "c18.deep.merge", "c18.kinds"],
        "outside": "keys beyond {0, 10, a/b, m~n, k, a, b, c, 007, +1, -0, 00}; arrays longer than N symbolic elements (plus a fixed common prefix of 7..10 elements in the LONG family); text-level encoding (codec axioms)",
    },
    "C10": {
        "quick": [
            {"pkg": "v2", "entries": ["VerifC10Own"], "params": {"N": 2, "KEYS": 3}},
            {"pkg": "v2", "entries": ["VerifC10Own"], "params": {"N": 3, "M": 2, "FAMS": 1}},
            {"pkg": "v2", "entries": ["VerifC10Own"], "params": {"N": 2, "M": 3, "FAMS": 1}},
            {"pkg": "v2", "entries": ["VerifC10Ops"], "params": {"OPS": 3, "N": 2, "MAXIDX": 3}, "samples": 50000},
            {"pkg": "v2", "entries": ["VerifC10Ops"], "params": {"OPS": 2, "N": 2, "MAXIDX": 3, "SPELL": 1}, "samples": 50000},
            {"pkg": "v2", "entries": ["VerifC10ObjOps"], "params": {"OPS": 2}},
            {"pkg": "v2", "entries": ["VerifC10ObjOps"], "params": {"OPS": 2, "ARR": 1, "PATHS": 12}},
            {"pkg": "v2", "entries": ["VerifC09Long"], "params": {"N": 2}},
        ],
        "thorough": [
            {"pkg": "v2", "entries": ["VerifC10Own"], "params": {"N": 3, "FAMS": 1}},
            {"pkg": "v2", "entries": ["VerifC10Own"], "params": {"N": 2, "KEYS": 4}},
            {"pkg": "v2", "entries": ["VerifC10Ops"], "params": {"OPS": 4, "N": 2, "MAXIDX": 3}, "samples": 50000, "timeout": 6000},
            {"pkg": "v2", "entries": ["VerifC10Ops"], "params": {"OPS": 5, "N": 1, "MAXIDX": 1, "WRAPS": 1}},
            {"pkg": "v2", "entries": ["VerifC10Ops"], "params": {"OPS": 3, "N": 2, "MAXIDX": 2, "SPELL": 1, "WRAPS": 1}, "samples": 50000},
            {"pkg": "v2", "entries": ["VerifC10ObjOps"], "params": {"OPS": 3}},
        ],
        "covers": ["c10.own", "c10.ops.applied", "c10.ops.rejected", "c10.objops.applied", "c10.objops.notapplied", "c09.long"],
        "outside": "more than OPS operations; indices above MAXIDX; index spellings other than canonical, 0-prefixed, signed; object-member operations beyond the paths /k, /m/k, /a~1b, /q/k, /m, /r/-, /r/-/k, /r/1/k, /r/-/0, /r/2/k, /m/- and the root (own-output leg covers keys a/b, m~n, empty, e-acute); replace/move/copy (outside jd's subset: rejected by the reader); operations lacking the value member (malformed per RFC 6902 section 4, not a JSON Patch document: jd reads a missing value as null)",
    },
    "C09": {
        "quick": [
            {"pkg": "v2", "entries": ["VerifC09Render"], "params": {"N": 2, "KEYS": 3}},
            {"pkg": "v2", "entries": ["VerifC09Render"], "params": {"N": 3, "M": 2, "FAMS": 1}},
            {"pkg": "v2", "entries": ["VerifC09Render"], "params": {"N": 2, "M": 3, "FAMS": 1}},
            {"pkg": "v2", "entries": ["VerifC09Refuse"], "params": {}},
            {"pkg": "v2", "entries": ["VerifC09Long"], "params": {"N": 3}},
        ],
        "thorough": [
            {"pkg": "v2", "entries": ["VerifC09Long"], "params": {"N": 3}},
            {"pkg": "v2", "entries": ["VerifC09Render"], "params": {"N": 3, "FAMS": 1}},
            {"pkg": "v2", "entries": ["VerifC09Render"], "params": {"N": 2, "KEYS": 4}},
            {"pkg": "v2", "entries": ["VerifC09Refuse"], "params": {}},
        ],
        "covers": ["c09.render", "c09.refuse", "c09.long"],
        "outside": "keys beyond the alphabet {a/b, m~n, empty, e-acute, k}; arrays longer than N symbolic elements (plus a fixed common prefix of 7..10 elements in the Long family: indices up to 12); set-mode diffs (refused); text-level encoding of values (codec axioms)",
    },
    "C02": {
        "quick": [
            {"pkg": "v2", "entries": ["VerifC02Lib"], "params": {"N": 2}},
            {"pkg": "v2", "entries": ["VerifC02Hunks"], "params": {"HUNKS": 1, "PAYLOADS": 2, "MULTI": 2}},
            {"pkg": "v2", "entries": ["VerifC02Hunks"], "params": {"HUNKS": 2, "PAYLOADS": 1, "MULTI": 1}},
            {"pkg": "v2", "entries": ["VerifC02Hunks"], "params": {"HUNKS": 1, "PAYLOADS": 2, "MULTI": 1, "CTX2": 1}},
            {"pkg": "v2", "entries": ["VerifC02Color"], "params": {}},
            {"pkg": "v2", "entries": ["VerifC02Big"], "params": {}},
        ],
        "thorough": [
            {"pkg": "v2", "entries": ["VerifC02Big"], "params": {}},
            {"pkg": "v2", "entries": ["VerifC02Hunks"], "params": {"HUNKS": 2, "PAYLOADS": 1, "MULTI": 1, "CTX2": 1}},
            {"pkg": "v2", "entries": ["VerifC02Lib"], "params": {"N": 3, "FAMS": 1}},
            {"pkg": "v2", "entries": ["VerifC02Lib"], "params": {"N": 2}},
            {"pkg": "v2", "entries": ["VerifC02Hunks"], "params": {"HUNKS": 1, "PAYLOADS": 4, "MULTI": 2}},
            {"pkg": "v2", "entries": ["VerifC02Hunks"], "params": {"HUNKS": 2, "PAYLOADS": 2, "MULTI": 1}},
            {"pkg": "v2", "entries": ["VerifC02Hunks"], "params": {"HUNKS": 3, "PAYLOADS": 1, "MULTI": 1, "PATHS": 5}},
            {"pkg": "v2", "entries": ["VerifC02Color"], "params": {}},
        ],
        "covers": ["c02.lib.none", "c02.lib.set", "c02.lib.multiset", "c02.lib.setkeys", "c02.lib.merge", "c02.hunks", "c02.color", "c02.big"],
        "outside": "character-level escaping of string payloads belongs to encoding/json (codec axioms; the colour leg uses a concrete alphabet incl. quotes, <>&, control and non-BMP characters through the real codec); more than 3 hunks, more than 2 removes/adds per hunk, more than two context lines (two only in the CTX2 runs); long lines other than one string payload of 4092, 65531 or 65532 bytes (rendered line just below / at the 64 KiB default buffer of bufio.Scanner)",
    },
    "C15": {
        "quick": [
            {"pkg": "v2", "entries": ["VerifC15History"], "params": {"H": 2, "N": 2}},
            {"pkg": "v2", "entries": ["VerifC15History"], "params": {"H": 1, "N": 2, "OPTN": 4, "FAMS": 4}},
            {"pkg": "v2", "entries": ["VerifC15MapOrder"], "params": {}, "replay_repeat": 40},
            {"pkg": "v2", "entries": ["VerifC15MapOrderSets"], "params": {"N": 2}, "replay_repeat": 40},
        ],
        "thorough": [
            {"pkg": "v2", "entries": ["VerifC15History"], "params": {"H": 3, "N": 2, "FAMS": 1}},
            {"pkg": "v2", "entries": ["VerifC15History"], "params": {"H": 2, "N": 3}},
            {"pkg": "v2", "entries": ["VerifC15History"], "params": {"H": 2, "N": 2, "OPTN": 4, "FAMS": 4}},
            {"pkg": "v2", "entries": ["VerifC15MapOrder"], "params": {}, "replay_repeat": 40},
            {"pkg": "v2", "entries": ["VerifC15MapOrderSets"], "params": {"N": 3}, "replay_repeat": 40},
        ],
        "covers": ["c15.mapordersets", "c15.history.none", "c15.history.merge", "c15.history.set", "c15.history.multiset", "c15.maporder"],
        "outside": "histories longer than H calls; 'fresh processes' are represented by map-iteration-order nondeterminism only (the sole per-process randomness in scope); objects with more than 2-3 keys in the map-order leg",
        "assumptions": ["map iteration: in the MapOrder leg the engine forks over every permutation of the entries at each range statement (independently per statement); in the MapOrderSets leg (set / multiset diff and patch, which range over several maps) it compares insertion order with reverse order for all maps at once, which is one alternative order, not all; native replay of a map-order counterexample is statistical (40 repetitions)"],
    },
    "C11": {
        "quick": [
            {"pkg": "v2", "entries": ["VerifC11Merge"], "params": {"D": 0, "EMPTYOBJ": 1}},
            {"pkg": "v2", "entries": ["VerifC11Deep"], "params": {"DEPTH": 7}},
        ],
        "thorough": [
            {"pkg": "v2", "entries": ["VerifC11Merge"], "params": {"D": 1, "EMPTYOBJ": 1, "ROOTS": 1, "OPTN": 1}},
            {"pkg": "v2", "entries": ["VerifC11Merge"], "params": {"D": 0, "EMPTYOBJ": 1, "INNER": 2}},
        ],
        "covers": ["c11.merge.merge", "c11.merge.set+merge", "c11.merge.multiset+merge"],
        "outside": "keys other than a,b,c; depth beyond D+1; text-level encoding of the patch (codec axioms)",
    },
    "C12": {
        "quick": [
            {"pkg": "v2", "entries": ["VerifC12Merge"], "params": {"D": 0}},
            {"pkg": "v2", "entries": ["VerifC12Deep"], "params": {"DEPTH": 7}},
        ],
        "thorough": [
            {"pkg": "v2", "entries": ["VerifC12Merge"], "params": {"D": 1}},
            {"pkg": "v2", "entries": ["VerifC12Merge"], "params": {"D": 0, "MAPORDER": 1}},
        ],
        "covers": ["c12.merge"],
        "outside": "keys other than a,b,c; depth beyond D+1; text-level decoding of the patch document (codec axioms)",
    },
    "C08": {
        "quick": [
            {"pkg": "v2", "entries": ["VerifC08Hunk"], "params": {"N": 2, "RM": 2, "AD": 1}},
            {"pkg": "v2", "entries": ["VerifC08Keyed"], "params": {"N": 2, "IDKINDS": 1}},
            {"pkg": "v2", "entries": ["VerifC08Keyed"], "params": {"N": 3, "IDKINDS": 0, "MIXED": 1}},
            {"pkg": "v2", "entries": ["VerifC08Diff"], "params": {"N": 2}},
            {"pkg": "v2", "entries": ["VerifC08Members"], "params": {"N": 1}},
            {"pkg": "v2", "entries": ["VerifC08Keyed2"], "params": {"N": 2}},
        ],
        "thorough": [
            {"pkg": "v2", "entries": ["VerifC08Keyed2"], "params": {"N": 3}},
            {"pkg": "v2", "entries": ["VerifC08Hunk"], "params": {"N": 3, "RM": 2, "AD": 2}},
            {"pkg": "v2", "entries": ["VerifC08Keyed"], "params": {"N": 3}},
            {"pkg": "v2", "entries": ["VerifC08Keyed"], "params": {"N": 3, "IDKINDS": 1, "MIXED": 1}},
            {"pkg": "v2", "entries": ["VerifC08Diff"], "params": {"N": 2}},
            {"pkg": "v2", "entries": ["VerifC08Members"], "params": {"N": 1}},
        ],
        "covers": ["c08.hunk.set", "c08.hunk.multiset", "c08.hunk.nonarray", "c08.keyed", "c08.keyed2", "c08.diff.set", "c08.diff.multiset", "c08.members.set", "c08.members.multiset"],
        "outside": "more than N members, more than 2 listed removals/additions, members other than numbers, pairs of numbers and objects holding a pair (keyed: objects {id,v}), several members matching one key (assumed away), FNV collisions",
    },
    "C06": {
        "quick": [
            {"pkg": "v2", "entries": ["VerifC06Flat"], "params": {"N": 3, "M": 2, "WRAPS": 2}},
            {"pkg": "v2", "entries": ["VerifC06Recurse"], "params": {"N": 3, "EMPTIES": 1}},
            {"pkg": "v2", "entries": ["VerifC06Flat"], "params": {"N": 4, "M": 4, "EXACT": 1, "CONCA": 1, "WRAPS": 2}},
        ],
        "thorough": [
            {"pkg": "v2", "entries": ["VerifC06Flat"], "params": {"N": 3, "M": 3, "WRAPS": 4}},
            {"pkg": "v2", "entries": ["VerifC06Flat"], "params": {"N": 4, "M": 2, "WRAPS": 1}},
            {"pkg": "v2", "entries": ["VerifC06Flat"], "params": {"N": 2, "M": 4, "WRAPS": 1}},
            {"pkg": "v2", "entries": ["VerifC06Recurse"], "params": {"N": 4, "EMPTIES": 1}},
            {"pkg": "v2", "entries": ["VerifC06Flat"], "params": {"N": 4, "M": 4, "EXACT": 1, "WRAPS": 1}},
            {"pkg": "v2", "entries": ["VerifC06Flat"], "params": {"N": 5, "M": 4, "EXACT": 1, "CONCA": 1, "WRAPS": 1}},
        ],
        "covers": ["c06.flat.root", "c06.flat.key", "c06.recurse"],
        "outside": "arrays longer than the bounds (4x4 fully symbolic in the thorough tier; in the quick tier 4x4 with a drawn from four fixed repeat patterns and b symbolic); elements other than numbers in the minimality leg; FNV collisions",
    },
    "C07": {
        "quick": [
            {"pkg": "v2", "entries": ["VerifC07List", "VerifC07Obj", "VerifC07Set", "VerifC07Merge"], "params": {"N": 2}},
            {"pkg": "v2", "entries": ["VerifC07Set"], "params": {"N": 1, "NESTED": 1}},
            {"pkg": "v2", "entries": ["VerifC07Keyed"], "params": {"N": 1, "M": 1}},
            {"pkg": "v2", "entries": ["VerifC07MergeNulls"], "params": {}},
            {"pkg": "v2", "entries": ["VerifC07Deep"], "params": {"DEPTH": 7}},
            {"pkg": "v2", "entries": ["VerifC07Deep"], "params": {"DEPTH": 3, "CHAINKINDS": 2}},
        ],
        "thorough": [
            {"pkg": "v2", "entries": ["VerifC07Deep"], "params": {"DEPTH": 9, "KEYS": 3}},
            {"pkg": "v2", "entries": ["VerifC07Deep"], "params": {"DEPTH": 5, "CHAINKINDS": 2}},
            {"pkg": "v2", "entries": ["VerifC07List"], "params": {"N": 3}},
            {"pkg": "v2", "entries": ["VerifC07Obj", "VerifC07Merge"], "params": {"N": 2, "INNER": 2}},
            {"pkg": "v2", "entries": ["VerifC07Set"], "params": {"N": 3}},
            {"pkg": "v2", "entries": ["VerifC07Set"], "params": {"N": 1, "NESTED": 1}},
            {"pkg": "v2", "entries": ["VerifC07Keyed"], "params": {"N": 2, "M": 1}},
            {"pkg": "v2", "entries": ["VerifC07Keyed"], "params": {"N": 1, "M": 2}},
            {"pkg": "v2", "entries": ["VerifC07MergeNulls"], "params": {}},
        ],
        "covers": ["c07.list.root", "c07.list.key", "c07.obj", "c07.set.set", "c07.set.multiset", "c07.merge", "c07.keyed", "c07.mergenulls", "c07.deep.strict", "c07.deep.merge"],
        "outside": "arrays longer than N; FNV collisions",
    },
    "C13": {
        "quick": [
            {"pkg": "v2", "entries": ["VerifC13Patch"], "params": {"PLEN": 1, "RM": 2, "AD": 2}},
            {"pkg": "v2", "entries": ["VerifC13Patch"], "params": {"PLEN": 2, "RENDER": 1}},
            {"pkg": "v2", "entries": ["VerifC13ReadDiff", "VerifC13ReadMerge"], "params": {"LINES": 2}},
            {"pkg": "v2", "entries": ["VerifC13ReadPatch"], "params": {"OPS": 2, "PTRS": 8}},
        ],
        "thorough": [
            {"pkg": "v2", "entries": ["VerifC13Patch"], "params": {"PLEN": 2, "RM": 2, "AD": 2}},
            {"pkg": "v2", "entries": ["VerifC13Patch"], "params": {"PLEN": 2, "RENDER": 1}},
            {"pkg": "v2", "entries": ["VerifC13ReadDiff", "VerifC13ReadMerge"], "params": {"LINES": 3}},
            {"pkg": "v2", "entries": ["VerifC13ReadPatch"], "params": {"OPS": 2}},
            {"pkg": "v2", "entries": ["VerifC13ReadPatch"], "params": {"OPS": 3, "PTRS": 4}},
        ],
        "covers": ["c13.patch", "c13.readdiff", "c13.readpatch", "c13.readmerge"],
        "outside": "raw byte-level text inside encoding/json, yaml.v2 and jsonpointer (assumed to return a value of the documented shape or an error and not to panic); paths longer than PLEN; the CLI process",
        "level_note": "PARTIAL claim (DESIGN.md section 7): decided is jd's own code on structurally valid diffs with arbitrary paths (any finite float index) against arbitrary small targets, and the three readers on every line / operation structure (symbolic header byte per line, payloads and pointers from adversarial menus incl. undecodable text) followed by Patch on five targets and the three renderers; byte-level behaviour of the third-party parsers is assumed, not checked. Trusted: gosym interpreter (validated by native replay of sampled paths), SMT solvers, hash/codec models.",
    },
    "C03": {
        "quick": [
            {"pkg": "v2", "entries": ["VerifC03Hunk"], "params": {"N": 2, "CTX": 2, "RM": 2, "AD": 1}},
            {"pkg": "v2", "entries": ["VerifC03Sub"], "params": {"N": 2}},
            {"pkg": "v2", "entries": ["VerifC03SubObj", "VerifC03ObjHunk"], "params": {"INNER": 1}},
        ],
        "thorough": [
            {"pkg": "v2", "entries": ["VerifC03Hunk"], "params": {"N": 3, "CTX": 2, "RM": 2, "AD": 2}},
            {"pkg": "v2", "entries": ["VerifC03Sub"], "params": {"N": 3}},
            {"pkg": "v2", "entries": ["VerifC03SubObj", "VerifC03ObjHunk"], "params": {"INNER": 2}},
        ],
        "covers": ["c03.hunk.root", "c03.hunk.key", "c03.hunk.index", "c03.hunk.key-in-array", "c03.sub.root", "c03.sub.key", "c03.subobj", "c03.objhunk.root", "c03.objhunk.key", "c03.objhunk.nested", "c03.objhunk.key-in-array"],
        "outside": "arrays longer than N, more than 2 context lines / removes / adds, index -1 (append sentinel), set/multiset and merge hunks (C08, C12)",
    },
    "C04": {
        "quick": [
            {"pkg": "v2", "entries": ["VerifC04Pair"], "params": {"N": 1}},
            {"pkg": "v2", "entries": ["VerifC04Pair"], "params": {"N": 1, "RICH": 2}},
            {"pkg": "v2", "entries": ["VerifC04Precision"], "params": {"N": 1}, "extra": ["-solver", "cvc5"]},
        ],
        "thorough": [
            {"pkg": "v2", "entries": ["VerifC04Pair"], "params": {"N": 1}},
            {"pkg": "v2", "entries": ["VerifC04Pair"], "params": {"N": 2, "KINDS": 5}},
            {"pkg": "v2", "entries": ["VerifC04Precision"], "params": {"N": 2}, "extra": ["-solver", "cvc5"]},
            {"pkg": "v2", "entries": ["VerifC04Pair"], "params": {"N": 1, "RICH": 1}},
            {"pkg": "v2", "entries": ["VerifC04Pair"], "params": {"N": 2, "RICH": 2}},
        ],
        "covers": ["c04.pair.list", "c04.pair.set", "c04.pair.multiset", "c04.pair.setkeys", "c04.precision"],
        "outside": "arrays longer than N, strings other than 0/1/8 bytes, FNV collisions",
    },
    "C05": {
        "quick": [
            {"pkg": "v2", "entries": ["VerifC05Flat"], "params": {"N": 2}},
            {"pkg": "v2", "entries": ["VerifC05Flat"], "params": {"N": 3, "OPTS": 6}},
            {"pkg": "v2", "entries": ["VerifC05Nest"], "params": {"N": 1, "INNER": 2}},
            {"pkg": "v2", "entries": ["VerifC05Nest"], "params": {"N": 2, "INNER": 1}},
            {"pkg": "v2", "entries": ["VerifC05Docs"], "params": {"OPTS": 19}},
            {"pkg": "v2", "entries": ["VerifC05Nulls"], "params": {"N": 2}},
            {"pkg": "v2", "entries": ["VerifC05Keys2"], "params": {"N": 1}},
            {"pkg": "v2", "entries": ["VerifC05Precision"], "params": {"N": 1}, "extra": ["-solver", "cvc5"]},
        ],
        "thorough": [
            {"pkg": "v2", "entries": ["VerifC05Flat"], "params": {"N": 3}},
            {"pkg": "v2", "entries": ["VerifC05Nest"], "params": {"N": 2, "INNER": 2}},
            {"pkg": "v2", "entries": ["VerifC05Docs"], "params": {"OPTS": 0x77}},
            {"pkg": "v2", "entries": ["VerifC05Nulls"], "params": {"N": 3}},
            {"pkg": "v2", "entries": ["VerifC05Keys2"], "params": {"N": 1}},
            {"pkg": "v2", "entries": ["VerifC05Precision"], "params": {"N": 1}, "extra": ["-solver", "cvc5"]},
        ],
        "covers": ["c05.flat.none", "c05.flat.set", "c05.flat.multiset", "c05.flat.merge", "c05.nest.none", "c05.nest.set+merge", "c05.obj.none", "c05.void.none", "c05.keyed.setkeys", "c05.precision", "c05.nulls.merge", "c05.nulls.none", "c05.keys2"],
        "outside": "arrays longer than N; the CLI exit status is decided in C14; FNV collisions",
    },
    "C01": {
        "quick": [
            {"pkg": "v2", "entries": ["VerifC01Flat"], "params": {"N": 2, "CLONE": 1}},
            {"pkg": "v2", "entries": ["VerifC01Obj", "VerifC01Void", "VerifC01Mixed"], "params": {"N": 2}},
            {"pkg": "v2", "entries": ["VerifC01Keyed"], "params": {"N": 2, "M": 1}},
            {"pkg": "v2", "entries": ["VerifC01Keyed"], "params": {"N": 1, "M": 1, "SCALARS": 1, "WRAPS": 1}},
            {"pkg": "v2", "entries": ["VerifC01Nest"], "params": {"N": 2, "OPTS": 0x17}},
            {"pkg": "v2", "entries": ["VerifC01Deep"], "params": {"DEPTH": 7}},
            {"pkg": "v2", "entries": ["VerifC01Deep"], "params": {"DEPTH": 3, "CHAINKINDS": 2}},
            {"pkg": "v2", "entries": ["VerifC01Seq"], "params": {"N": 3}},
            {"pkg": "v2", "entries": ["VerifC01Kinds"], "params": {"N": 2, "OPTS": 1}},
            {"pkg": "v2", "entries": ["VerifC01Perm"], "params": {"N": 2, "M": 0}},
            {"pkg": "v2", "entries": ["VerifC01Perm"], "params": {"N": 1, "M": 1}},
        ],
        "thorough": [
            {"pkg": "v2", "entries": ["VerifC01Flat"], "params": {"N": 3, "CLONE": 1}},
            {"pkg": "v2", "entries": ["VerifC01Obj", "VerifC01Void", "VerifC01Mixed"], "params": {"N": 2, "INNER": 2}},
            {"pkg": "v2", "entries": ["VerifC01Keyed"], "params": {"N": 2, "M": 1}},
            {"pkg": "v2", "entries": ["VerifC01Keyed"], "params": {"N": 1, "M": 2}},
            {"pkg": "v2", "entries": ["VerifC01Keyed"], "params": {"N": 1, "M": 1, "SCALARS": 1}},
            {"pkg": "v2", "entries": ["VerifC01Nest"], "params": {"N": 2, "OPTS": 0x77, "WRAPS": 4}},
            {"pkg": "v2", "entries": ["VerifC01Deep"], "params": {"DEPTH": 9, "CHAINKINDS": 1}},
            {"pkg": "v2", "entries": ["VerifC01Deep"], "params": {"DEPTH": 5, "CHAINKINDS": 2}},
            {"pkg": "v2", "entries": ["VerifC01Seq"], "params": {"N": 3, "OPTS": 0x17}},
            {"pkg": "v2", "entries": ["VerifC01Nest"], "params": {"N": 3, "OPTS": 1, "WRAPS": 1}},
            {"pkg": "v2", "entries": ["VerifC01Kinds"], "params": {"N": 2, "OPTS": 7}},
            {"pkg": "v2", "entries": ["VerifC01Perm"], "params": {"N": 2, "M": 1}},
            {"pkg": "v2", "entries": ["VerifC01Perm"], "params": {"N": 1, "M": 2}},
        ],
        "covers": ["c01.flat.none", "c01.flat.set", "c01.flat.multiset", "c01.flat.merge", "c01.flat.set+merge", "c01.flat.multiset+merge",
                   "c01.obj.none", "c01.obj.merge", "c01.keyed.setkeys", "c01.void.none", "c01.mixed.set", "c01.nest.none", "c01.nest.multiset", "c01.deep.none"],
        "outside": "arrays longer than N, depth beyond the families, FNV collisions",
    },
}

DEFAULT_LEVEL_TEXT = ("Bounded model checking of the real implementation: the harness and every jd/golcs function it reaches are "
                      "executed symbolically from go/ssa; leaves, indices, flags and hash codes are solver variables, every branch "
                      "and every assertion is decided by an SMT solver, so within the stated bounds the property holds for every "
                      "value, or a concrete counterexample is produced and replayed against the native build.")
DEFAULT_LEVEL_NOTE = ("Trusted: the gosym interpreter and term simplifier (validated each run by replaying sampled paths natively and "
                      "comparing observations), the SMT solvers, the idealised FNV hash (injective; real collisions outside), the "
                      "structural model of encoding/json, fmt/sort models. Bounds are listed in the evidence; nothing is claimed outside them.")
DEFAULT_TECHNIQUE = "bounded symbolic execution of the Go SSA with SMT (z3/cvc5) deciding every branch and assertion; native replay of counterexamples"

_NA_PENDING = "check not built yet in this session (engine exists; harness pending)"
NOT_APPLICABLE = {
    
    "C16": ("quantifies over the characters of strings as they pass through yaml.v2's scanner/resolver/emitter and encoding/json "
            "(about 10k lines of third-party reflection- and regexp-driven text code); no Go symbolic engine in the image reaches that "
            "code and modelling the codecs would assume the very thing the property states; jd's own share is a 15-line adapter"),
}
NOTES = "See DESIGN.md. All checks share one engine (/verif/engine, gosym) and one driver (/verif/verif)."
