package main

// Generic models of pure standard-library functions over basic types: when jd (or a changed
// jd) calls one of the functions registered here and no specific model exists, the arguments
// are concretised (strings byte by byte, integers by forking over their values; constants cost
// nothing) and the REAL function is called through reflection. This keeps a refactoring that
// switches between equivalent library calls (strconv.Atoi / ParseInt / ParseUint,
// strings.Index / Contains / Cut ...) decidable instead of "unsupported".

import (
	"math"
	"reflect"
	"strconv"
	"strings"
	"unicode"
	"unicode/utf8"

	"golang.org/x/tools/go/ssa"
)

var genericFuncs = map[string]interface{}{
	"strings.Compare": strings.Compare, "strings.Contains": strings.Contains, "strings.ContainsAny": strings.ContainsAny,
	"strings.ContainsRune": strings.ContainsRune, "strings.Count": strings.Count, "strings.EqualFold": strings.EqualFold,
	"strings.Fields": strings.Fields, "strings.HasPrefix": strings.HasPrefix, "strings.HasSuffix": strings.HasSuffix,
	"strings.Index": strings.Index, "strings.IndexAny": strings.IndexAny, "strings.IndexByte": strings.IndexByte,
	"strings.IndexRune": strings.IndexRune, "strings.Join": strings.Join, "strings.LastIndex": strings.LastIndex,
	"strings.LastIndexByte": strings.LastIndexByte, "strings.Repeat": strings.Repeat, "strings.Replace": strings.Replace,
	"strings.ReplaceAll": strings.ReplaceAll, "strings.Split": strings.Split, "strings.SplitN": strings.SplitN,
	"strings.SplitAfter": strings.SplitAfter, "strings.Title": strings.Title, "strings.ToLower": strings.ToLower,
	"strings.ToUpper": strings.ToUpper, "strings.Trim": strings.Trim, "strings.TrimLeft": strings.TrimLeft,
	"strings.TrimRight": strings.TrimRight, "strings.TrimPrefix": strings.TrimPrefix, "strings.TrimSuffix": strings.TrimSuffix,
	"strings.TrimSpace": strings.TrimSpace, "strings.Cut": strings.Cut, "strings.CutPrefix": strings.CutPrefix,
	"strings.CutSuffix": strings.CutSuffix,
	"strconv.Atoi":      strconv.Atoi, "strconv.Itoa": strconv.Itoa, "strconv.ParseInt": strconv.ParseInt,
	"strconv.ParseUint": strconv.ParseUint, "strconv.ParseBool": strconv.ParseBool, "strconv.ParseFloat": strconv.ParseFloat,
	"strconv.FormatInt": strconv.FormatInt, "strconv.FormatUint": strconv.FormatUint, "strconv.FormatBool": strconv.FormatBool,
	"strconv.FormatFloat": strconv.FormatFloat, "strconv.Quote": strconv.Quote, "strconv.Unquote": strconv.Unquote,
	"strconv.QuoteToASCII": strconv.QuoteToASCII,
	"math.Floor":           math.Floor, "math.Ceil": math.Ceil, "math.Trunc": math.Trunc, "math.Round": math.Round,
	"math.Max": math.Max, "math.Min": math.Min, "math.Mod": math.Mod, "math.Pow": math.Pow, "math.Sqrt": math.Sqrt,
	"math.IsInf": math.IsInf, "math.Inf": math.Inf, "math.NaN": math.NaN, "math.Signbit": math.Signbit,
	"math.Copysign": math.Copysign, "math.Modf": math.Modf, "math.Log10": math.Log10, "math.Pow10": math.Pow10,
	"unicode.IsDigit": unicode.IsDigit, "unicode.IsSpace": unicode.IsSpace, "unicode.IsLetter": unicode.IsLetter,
	"unicode.IsUpper": unicode.IsUpper, "unicode.IsLower": unicode.IsLower, "unicode.ToLower": unicode.ToLower,
	"unicode.ToUpper": unicode.ToUpper, "unicode.IsPrint": unicode.IsPrint, "unicode.IsControl": unicode.IsControl,
	"unicode/utf8.ValidString": utf8.ValidString, "unicode/utf8.RuneCountInString": utf8.RuneCountInString,
}

var errorType = reflect.TypeOf((*error)(nil)).Elem()

func (in *Interp) toGo(v Value, t reflect.Type, what string) reflect.Value {
	switch t.Kind() {
	case reflect.String:
		s := v.(Str)
		c, ok := s.concrete()
		if !ok {
			c = in.concretizeStr(s)
		}
		return reflect.ValueOf(c).Convert(t)
	case reflect.Bool:
		b := v.(*Term)
		if b.IsConst() {
			return reflect.ValueOf(b == in.tt.T)
		}
		return reflect.ValueOf(in.path.Branch(b))
	case reflect.Int, reflect.Int8, reflect.Int16, reflect.Int32, reflect.Int64:
		return reflect.ValueOf(in.concreteInt(v, what)).Convert(t)
	case reflect.Uint, reflect.Uint8, reflect.Uint16, reflect.Uint32, reflect.Uint64:
		return reflect.ValueOf(uint64(in.concreteInt(v, what))).Convert(t)
	case reflect.Float64:
		f := v.(*Term)
		if !f.IsConst() {
			panic(unsupported("symbolic float argument of " + what))
		}
		return reflect.ValueOf(fpc(f))
	case reflect.Slice:
		if t.Elem().Kind() == reflect.String {
			var sl Slice
			if v != nil {
				sl = v.(Slice)
			}
			out := reflect.MakeSlice(t, len(sl.v), len(sl.v))
			for i, e := range sl.v {
				out.Index(i).Set(in.toGo(e, t.Elem(), what))
			}
			return out
		}
	}
	panic(unsupported("argument type " + t.String() + " of " + what))
}

func (in *Interp) fromGo(r reflect.Value, what string) Value {
	t := r.Type()
	if t == errorType {
		if r.IsNil() {
			return Iface{}
		}
		return in.newError(in.strConst(r.Interface().(error).Error()))
	}
	switch t.Kind() {
	case reflect.String:
		return in.strConst(r.String())
	case reflect.Bool:
		return in.tt.Bool(r.Bool())
	case reflect.Int, reflect.Int64:
		return in.tt.BV(64, uint64(r.Int()))
	case reflect.Int32:
		return in.tt.BV(32, uint64(r.Int()))
	case reflect.Int16:
		return in.tt.BV(16, uint64(r.Int()))
	case reflect.Int8:
		return in.tt.BV(8, uint64(r.Int()))
	case reflect.Uint, reflect.Uint64:
		return in.tt.BV(64, r.Uint())
	case reflect.Uint32:
		return in.tt.BV(32, r.Uint())
	case reflect.Uint16:
		return in.tt.BV(16, r.Uint())
	case reflect.Uint8:
		return in.tt.BV(8, r.Uint())
	case reflect.Float64:
		return in.tt.FPConst(r.Float())
	case reflect.Slice:
		if t.Elem().Kind() == reflect.String {
			out := make([]Value, r.Len())
			for i := range out {
				out[i] = in.strConst(r.Index(i).String())
			}
			return Slice{v: out}
		}
	}
	panic(unsupported("result type " + t.String() + " of " + what))
}

func (e *Engine) registerGenericModels() {
	for name, f := range genericFuncs {
		if _, has := e.models[name]; has {
			continue // a specific (symbolic) model exists
		}
		name, fv := name, reflect.ValueOf(f)
		ft := fv.Type()
		e.models[name] = func(in *Interp, fn *ssa.Function, a []Value) Value {
			args := make([]reflect.Value, ft.NumIn())
			for i := range args {
				args[i] = in.toGo(a[i], ft.In(i), name)
			}
			res := fv.Call(args)
			if len(res) == 0 {
				return nil
			}
			if len(res) == 1 {
				return in.fromGo(res[0], name)
			}
			t := make(Tuple, len(res))
			for i, r := range res {
				t[i] = in.fromGo(r, name)
			}
			return t
		}
	}
}
