package main

// One long-lived SMT solver process per worker, driven over a pipe with
// push/pop. Any "(error" line makes the current query inconclusive.

import (
	"bufio"
	"fmt"
	"io"
	"os/exec"
	"strconv"
	"strings"
	"time"
)

type Solver struct {
	kind     string
	cmd      *exec.Cmd
	in       io.WriteCloser
	out      *bufio.Reader
	declared map[string]bool
	depth    int
	// stats
	nSat, nUnsat, nUnknown, nErr int
	solveTime                    time.Duration
	log                          io.Writer
}

func solverArgv(kind string, timeoutMs int) []string {
	switch kind {
	case "z3":
		return []string{"z3", "-in", fmt.Sprintf("-t:%d", timeoutMs)}
	case "z3-new":
		return []string{"z3-new", "-in", fmt.Sprintf("-t:%d", timeoutMs)}
	case "cvc5":
		return []string{"cvc5", "--incremental", "--lang=smt2", "--produce-models", "--fp-exp", fmt.Sprintf("--tlimit-per=%d", timeoutMs)}
	}
	panic("unknown solver " + kind)
}

func NewSolver(kind string, timeoutMs int) (*Solver, error) {
	argv := solverArgv(kind, timeoutMs)
	cmd := exec.Command(argv[0], argv[1:]...)
	in, err := cmd.StdinPipe()
	if err != nil {
		return nil, err
	}
	outp, err := cmd.StdoutPipe()
	if err != nil {
		return nil, err
	}
	cmd.Stderr = cmd.Stdout
	if err := cmd.Start(); err != nil {
		return nil, err
	}
	s := &Solver{kind: kind, cmd: cmd, in: in, out: bufio.NewReaderSize(outp, 1<<16), declared: map[string]bool{}}
	s.send("(set-option :global-declarations true)")
	if kind != "cvc5" {
		s.send("(set-option :produce-models true)")
	} else {
		s.send("(set-logic ALL)")
	}
	// sync
	if r := s.echo(); r != "" {
		return nil, fmt.Errorf("solver %s start-up: %s", kind, r)
	}
	return s, nil
}

func (s *Solver) send(cmd string) {
	if s.log != nil {
		fmt.Fprintln(s.log, cmd)
	}
	io.WriteString(s.in, cmd)
	io.WriteString(s.in, "\n")
}

// echo flushes pending output up to a marker; returns any error text seen.
func (s *Solver) echo() string {
	s.send(`(echo "@@sync")`)
	var errs []string
	for {
		line, err := s.out.ReadString('\n')
		if err != nil {
			return "solver died: " + err.Error() + " " + strings.Join(errs, ";")
		}
		line = strings.TrimSpace(line)
		if strings.Contains(line, "@@sync") {
			break
		}
		if line != "" && line != "success" {
			errs = append(errs, line)
		}
	}
	return strings.Join(errs, ";")
}

func (s *Solver) Close() {
	s.send("(exit)")
	s.in.Close()
	done := make(chan struct{})
	go func() { s.cmd.Wait(); close(done) }()
	select {
	case <-done:
	case <-time.After(2 * time.Second):
		s.cmd.Process.Kill()
	}
}

func (s *Solver) declare(t *Term) {
	vs := map[*Term]bool{}
	t.Vars(vs)
	for v := range vs {
		if !s.declared[v.name] {
			s.declared[v.name] = true
			if v.w == SortBool {
				s.send(fmt.Sprintf("(declare-const %s Bool)", v.name))
			} else {
				s.send(fmt.Sprintf("(declare-const %s (_ BitVec %d))", v.name, v.w))
			}
		}
	}
}

func (s *Solver) Push() { s.send("(push 1)"); s.depth++ }
func (s *Solver) Pop(n int) {
	if n <= 0 {
		return
	}
	s.send(fmt.Sprintf("(pop %d)", n))
	s.depth -= n
}

func (s *Solver) Assert(t *Term) {
	s.declare(t)
	s.send("(assert " + t.SMT() + ")")
}

// CheckAssuming checks the current context together with one extra formula, which is
// introduced through a defined Boolean name (no push/pop).
func (s *Solver) CheckAssuming(t *Term) string {
	s.declare(t)
	neg := false
	if t.op == ONot {
		neg = true
		t = t.args[0]
	}
	name := fmt.Sprintf("q!%d", t.id)
	if !s.declared[name] {
		s.declared[name] = true
		s.send(fmt.Sprintf("(define-fun %s () Bool %s)", name, t.SMT()))
	}
	if neg {
		return s.check(fmt.Sprintf("(check-sat-assuming ((not %s)))", name))
	}
	return s.check(fmt.Sprintf("(check-sat-assuming (%s))", name))
}

// Check returns "sat", "unsat" or "unknown" (errors count as unknown).
func (s *Solver) Check() string {
	return s.check("(check-sat)")
}

func (s *Solver) check(cmd string) string {
	t0 := time.Now()
	s.send(cmd)
	s.send(`(echo "@@sync")`)
	res := ""
	bad := false
	for {
		line, err := s.out.ReadString('\n')
		if err != nil {
			res = "unknown"
			bad = true
			break
		}
		line = strings.TrimSpace(line)
		if strings.Contains(line, "@@sync") {
			break
		}
		switch {
		case line == "sat" || line == "unsat" || line == "unknown":
			res = line
		case line == "" || line == "success":
		default:
			// (error ...), timeout notes etc.
			if strings.Contains(line, "error") {
				bad = true
			}
			if s.log != nil {
				fmt.Fprintln(s.log, "; <<", line)
			}
		}
	}
	s.solveTime += time.Since(t0)
	if bad || res == "" {
		s.nErr++
		res = "unknown"
	}
	switch res {
	case "sat":
		s.nSat++
	case "unsat":
		s.nUnsat++
	default:
		s.nUnknown++
	}
	return res
}

// GetModel queries values of the given variables after a sat answer.
func (s *Solver) GetModel(vars []*Term) (Model, error) {
	m := Model{}
	if len(vars) == 0 {
		return m, nil
	}
	var sb strings.Builder
	sb.WriteString("(get-value (")
	for i, v := range vars {
		if !s.declared[v.name] {
			// never mentioned to the solver: unconstrained, choose 0
			m[v.name] = 0
			continue
		}
		_ = i
		sb.WriteString(" ")
		sb.WriteString(v.name)
	}
	sb.WriteString("))")
	if len(m) == len(vars) {
		return m, nil
	}
	t0 := time.Now()
	s.send(sb.String())
	s.send(`(echo "@@sync")`)
	var text strings.Builder
	for {
		line, err := s.out.ReadString('\n')
		if err != nil {
			return nil, fmt.Errorf("solver died")
		}
		if strings.Contains(line, "@@sync") {
			break
		}
		text.WriteString(line)
	}
	s.solveTime += time.Since(t0)
	txt := text.String()
	if strings.Contains(txt, "(error") {
		return nil, fmt.Errorf("get-value: %s", strings.TrimSpace(txt))
	}
	// parse ((name val) (name val) ...)
	toks := tokenize(txt)
	for i := 0; i+3 < len(toks); i++ {
		if toks[i] == "(" && toks[i+3] == ")" && toks[i+1] != "(" && toks[i+2] != "(" {
			name, val := toks[i+1], toks[i+2]
			switch {
			case val == "true":
				m[name] = 1
			case val == "false":
				m[name] = 0
			case strings.HasPrefix(val, "#x"):
				u, _ := strconv.ParseUint(val[2:], 16, 64)
				m[name] = u
			case strings.HasPrefix(val, "#b"):
				u, _ := strconv.ParseUint(val[2:], 2, 64)
				m[name] = u
			}
		}
	}
	for _, v := range vars {
		if _, ok := m[v.name]; !ok {
			return nil, fmt.Errorf("get-value: no value for %s in %q", v.name, txt)
		}
	}
	return m, nil
}

func tokenize(s string) []string {
	var out []string
	i := 0
	for i < len(s) {
		c := s[i]
		switch {
		case c == '(' || c == ')':
			out = append(out, string(c))
			i++
		case c == ' ' || c == '\n' || c == '\t' || c == '\r':
			i++
		default:
			j := i
			for j < len(s) && !strings.ContainsRune("() \n\t\r", rune(s[j])) {
				j++
			}
			out = append(out, s[i:j])
			i = j
		}
	}
	return out
}
