package main

// Term DAG with hash-consing, constant folding and SMT-LIB2 printing.
// Sorts: Bool, BitVec(w), FP64 (IEEE double, always built from a BV64 bit pattern
// or an integer; never a free variable).

import (
	"fmt"
	"math"
	"math/bits"
	"strings"
)

type Op uint8

const (
	OConst Op = iota
	OVar
	ONot
	OAnd
	OOr
	OEq
	OIte
	OAdd
	OSub
	OMul
	ONeg
	OBvAnd
	OBvOr
	OBvXor
	OBvNot
	OShl
	OLshr
	OAshr
	OUdiv
	OSdiv
	OUrem
	OSrem
	OUlt
	OUle
	OSlt
	OSle
	OExtract // a=hi b=lo
	OConcat
	OZext // to width
	OSext
	// FP
	OFpOfBits // BV64 -> FP
	OFpOfSInt // BV64 (signed) -> FP, RNE
	OFpSub
	OFpAdd
	OFpMul
	OFpDiv
	OFpNeg
	OFpAbs
	OFpEq
	OFpLt
	OFpLe
	OFpIsNaN
	OFpToSInt  // FP -> BV64, amd64 cvttsd2sq semantics
	OFpSame    // SMT = on FP: same value incl. sign of zero
	OFpOfSIntR // BV64 (signed) -> FP, RNE, possibly inexact (no integer shortcuts)
	OFpTrunc   // round to integral, toward zero (math.Trunc)
)

const (
	SortBool = 0
	SortFP   = -1
)

type Term struct {
	op   Op
	w    int // SortBool, SortFP or bit-width
	args []*Term
	val  uint64 // OConst (bool: 0/1; FP const: bits)
	name string // OVar
	a, b int    // extract hi/lo
	id   int
}

type termKey struct {
	op         Op
	w          int
	a0, a1, a2 int
	val        uint64
	name       string
	a, b       int
}

type TermTable struct {
	tab  map[termKey]*Term
	nary map[string]*Term
	next int
	T, F *Term
	// sintSrc: int64 terms built by bvToSInt -> the float bits they were converted from
	sintSrc map[int]*Term
}

func NewTermTable() *TermTable {
	tt := &TermTable{tab: map[termKey]*Term{}, nary: map[string]*Term{}}
	tt.T = tt.mk(&Term{op: OConst, w: SortBool, val: 1})
	tt.F = tt.mk(&Term{op: OConst, w: SortBool, val: 0})
	return tt
}

func (tt *TermTable) mk(t *Term) *Term {
	if len(t.args) > 3 {
		var sb strings.Builder
		fmt.Fprintf(&sb, "%d/%d", t.op, t.w)
		for _, a := range t.args {
			fmt.Fprintf(&sb, ",%d", a.id)
		}
		k := sb.String()
		if e, ok := tt.nary[k]; ok {
			return e
		}
		tt.next++
		t.id = tt.next
		tt.nary[k] = t
		return t
	}
	k := termKey{op: t.op, w: t.w, val: t.val, name: t.name, a: t.a, b: t.b, a0: -1, a1: -1, a2: -1}
	if len(t.args) > 0 {
		k.a0 = t.args[0].id
	}
	if len(t.args) > 1 {
		k.a1 = t.args[1].id
	}
	if len(t.args) > 2 {
		k.a2 = t.args[2].id
	}
	if e, ok := tt.tab[k]; ok {
		return e
	}
	tt.next++
	t.id = tt.next
	tt.tab[k] = t
	return t
}

func mask(w int) uint64 {
	if w >= 64 {
		return ^uint64(0)
	}
	return (uint64(1) << uint(w)) - 1
}

func (t *Term) IsConst() bool { return t.op == OConst }
func (t *Term) IsBool() bool  { return t.w == SortBool }

// signed value of a const
func (t *Term) SVal() int64 {
	if t.w >= 64 || t.w <= 0 {
		return int64(t.val)
	}
	sh := uint(64 - t.w)
	return int64(t.val<<sh) >> sh
}

func (tt *TermTable) Bool(b bool) *Term {
	if b {
		return tt.T
	}
	return tt.F
}

func (tt *TermTable) BV(w int, v uint64) *Term {
	return tt.mk(&Term{op: OConst, w: w, val: v & mask(w)})
}

func (tt *TermTable) FPConst(f float64) *Term {
	return tt.mk(&Term{op: OConst, w: SortFP, val: math.Float64bits(f)})
}

func (tt *TermTable) Var(name string, w int) *Term {
	return tt.mk(&Term{op: OVar, w: w, name: name})
}

func (tt *TermTable) Not(a *Term) *Term {
	if a.IsConst() {
		return tt.Bool(a.val == 0)
	}
	if a.op == ONot {
		return a.args[0]
	}
	return tt.mk(&Term{op: ONot, w: SortBool, args: []*Term{a}})
}

func (tt *TermTable) And(xs ...*Term) *Term {
	var out []*Term
	seen := map[int]bool{}
	for _, x := range xs {
		if x.IsConst() {
			if x.val == 0 {
				return tt.F
			}
			continue
		}
		if x.op == OAnd {
			for _, y := range x.args {
				if !seen[y.id] {
					seen[y.id] = true
					out = append(out, y)
				}
			}
			continue
		}
		if !seen[x.id] {
			seen[x.id] = true
			out = append(out, x)
		}
	}
	for _, x := range out {
		if x.op == ONot && seen[x.args[0].id] {
			return tt.F
		}
	}
	if len(out) == 0 {
		return tt.T
	}
	if len(out) == 1 {
		return out[0]
	}
	return tt.mk(&Term{op: OAnd, w: SortBool, args: out})
}

func (tt *TermTable) Or(xs ...*Term) *Term {
	var out []*Term
	seen := map[int]bool{}
	for _, x := range xs {
		if x.IsConst() {
			if x.val == 1 {
				return tt.T
			}
			continue
		}
		if x.op == OOr {
			for _, y := range x.args {
				if !seen[y.id] {
					seen[y.id] = true
					out = append(out, y)
				}
			}
			continue
		}
		if !seen[x.id] {
			seen[x.id] = true
			out = append(out, x)
		}
	}
	for _, x := range out {
		if x.op == ONot && seen[x.args[0].id] {
			return tt.T
		}
	}
	if len(out) == 0 {
		return tt.F
	}
	if len(out) == 1 {
		return out[0]
	}
	return tt.mk(&Term{op: OOr, w: SortBool, args: out})
}

func (tt *TermTable) Eq(a, b *Term) *Term {
	if a.w != b.w {
		panic(fmt.Sprintf("Eq sort mismatch %d %d: %s %s", a.w, b.w, a.SMT(), b.SMT()))
	}
	if a == b {
		if a.w == SortFP {
			panic("Eq on FP terms: use FpEq")
		}
		return tt.T
	}
	if a.IsConst() && b.IsConst() {
		return tt.Bool(a.val == b.val)
	}
	if a.w == SortBool {
		if a.IsConst() {
			a, b = b, a
		}
		if b.IsConst() {
			if b.val == 1 {
				return a
			}
			return tt.Not(a)
		}
	}
	// const == ite(p, c1, c2) with constant branches
	if a.IsConst() && b.op == OIte {
		a, b = b, a
	}
	if a.op == OIte && b.IsConst() && a.w != SortFP {
		x, y := a.args[1], a.args[2]
		if (x.IsConst() || x.op == OIte) && (y.IsConst() || y.op == OIte) {
			return tt.Or(tt.And(a.args[0], tt.Eq(x, b)), tt.And(tt.Not(a.args[0]), tt.Eq(y, b)))
		}
	}
	// byte-extract vs byte-extract of the same positions is kept; concat vs concat split
	if a.op == OConcat && b.op == OConcat && len(a.args) == len(b.args) {
		same := true
		for i := range a.args {
			if a.args[i].w != b.args[i].w {
				same = false
			}
		}
		if same {
			cs := make([]*Term, len(a.args))
			for i := range a.args {
				cs[i] = tt.Eq(a.args[i], b.args[i])
			}
			return tt.And(cs...)
		}
	}
	if a.id > b.id {
		a, b = b, a
	}
	return tt.mk(&Term{op: OEq, w: SortBool, args: []*Term{a, b}})
}

func (tt *TermTable) Ite(c, a, b *Term) *Term {
	if c.IsConst() {
		if c.val == 1 {
			return a
		}
		return b
	}
	if a == b {
		return a
	}
	if a.w == SortBool {
		return tt.Or(tt.And(c, a), tt.And(tt.Not(c), b))
	}
	return tt.mk(&Term{op: OIte, w: a.w, args: []*Term{c, a, b}})
}

func (tt *TermTable) bin(op Op, a, b *Term) *Term {
	if a.w != b.w {
		panic(fmt.Sprintf("bin op %d width mismatch %d %d", op, a.w, b.w))
	}
	w := a.w
	if a.IsConst() && b.IsConst() {
		x, y := a.val, b.val
		var r uint64
		ok := true
		switch op {
		case OAdd:
			r = x + y
		case OSub:
			r = x - y
		case OMul:
			r = x * y
		case OBvAnd:
			r = x & y
		case OBvOr:
			r = x | y
		case OBvXor:
			r = x ^ y
		case OShl:
			if y >= uint64(w) {
				r = 0
			} else {
				r = x << y
			}
		case OLshr:
			if y >= uint64(w) {
				r = 0
			} else {
				r = x >> y
			}
		case OAshr:
			s := a.SVal()
			if y >= uint64(w) {
				y = uint64(w - 1)
			}
			r = uint64(s >> y)
		case OUdiv:
			if y == 0 {
				ok = false
			} else {
				r = x / y
			}
		case OUrem:
			if y == 0 {
				ok = false
			} else {
				r = x % y
			}
		case OSdiv:
			if y == 0 {
				ok = false
			} else if a.SVal() == math.MinInt64 && b.SVal() == -1 {
				r = x
			} else {
				r = uint64(a.SVal() / b.SVal())
			}
		case OSrem:
			if y == 0 {
				ok = false
			} else if b.SVal() == -1 {
				r = 0
			} else {
				r = uint64(a.SVal() % b.SVal())
			}
		default:
			ok = false
		}
		if ok {
			return tt.BV(w, r)
		}
	}
	switch op {
	case OAdd:
		if a.IsConst() {
			a, b = b, a
		}
		if b.IsConst() && b.val == 0 {
			return a
		}
		// (x + c1) + c2
		if b.IsConst() && a.op == OAdd && a.args[1].IsConst() {
			return tt.bin(OAdd, a.args[0], tt.BV(w, a.args[1].val+b.val))
		}
	case OSub:
		if b.IsConst() {
			return tt.bin(OAdd, a, tt.BV(w, -b.val))
		}
		if a == b {
			return tt.BV(w, 0)
		}
	case OMul:
		if a.IsConst() {
			a, b = b, a
		}
		if b.IsConst() && b.val == 1 {
			return a
		}
		if b.IsConst() && b.val == 0 {
			return b
		}
	case OBvXor, OBvOr:
		if a.IsConst() {
			a, b = b, a
		}
		if b.IsConst() && b.val == 0 {
			return a
		}
		if a == b {
			if op == OBvXor {
				return tt.BV(w, 0)
			}
			return a
		}
	case OBvAnd:
		if a.IsConst() {
			a, b = b, a
		}
		if b.IsConst() && b.val == 0 {
			return b
		}
		if b.IsConst() && b.val == mask(w) {
			return a
		}
		if a == b {
			return a
		}
	}
	return tt.mk(&Term{op: op, w: w, args: []*Term{a, b}})
}

func (tt *TermTable) Add(a, b *Term) *Term         { return tt.bin(OAdd, a, b) }
func (tt *TermTable) Sub(a, b *Term) *Term         { return tt.bin(OSub, a, b) }
func (tt *TermTable) Mul(a, b *Term) *Term         { return tt.bin(OMul, a, b) }
func (tt *TermTable) BvOp(op Op, a, b *Term) *Term { return tt.bin(op, a, b) }

func (tt *TermTable) Neg(a *Term) *Term {
	if a.IsConst() {
		return tt.BV(a.w, -a.val)
	}
	return tt.mk(&Term{op: ONeg, w: a.w, args: []*Term{a}})
}

func (tt *TermTable) BvNot(a *Term) *Term {
	if a.IsConst() {
		return tt.BV(a.w, ^a.val)
	}
	return tt.mk(&Term{op: OBvNot, w: a.w, args: []*Term{a}})
}

func (tt *TermTable) cmp(op Op, a, b *Term) *Term {
	if a.w != b.w {
		panic(fmt.Sprintf("cmp width mismatch %d %d", a.w, b.w))
	}
	if a.IsConst() && b.IsConst() {
		switch op {
		case OUlt:
			return tt.Bool(a.val < b.val)
		case OUle:
			return tt.Bool(a.val <= b.val)
		case OSlt:
			return tt.Bool(a.SVal() < b.SVal())
		case OSle:
			return tt.Bool(a.SVal() <= b.SVal())
		}
	}
	if a == b {
		return tt.Bool(op == OUle || op == OSle)
	}
	return tt.mk(&Term{op: op, w: SortBool, args: []*Term{a, b}})
}

func (tt *TermTable) Ult(a, b *Term) *Term { return tt.cmp(OUlt, a, b) }
func (tt *TermTable) Ule(a, b *Term) *Term { return tt.cmp(OUle, a, b) }
func (tt *TermTable) Slt(a, b *Term) *Term { return tt.cmp(OSlt, a, b) }
func (tt *TermTable) Sle(a, b *Term) *Term { return tt.cmp(OSle, a, b) }

func (tt *TermTable) Extract(hi, lo int, a *Term) *Term {
	if lo == 0 && hi == a.w-1 {
		return a
	}
	if a.IsConst() {
		return tt.BV(hi-lo+1, a.val>>uint(lo))
	}
	if a.op == OExtract {
		return tt.Extract(hi+a.b, lo+a.b, a.args[0])
	}
	if a.op == OZext && hi < a.args[0].w {
		return tt.Extract(hi, lo, a.args[0])
	}
	if a.op == OConcat {
		// args[0] is most significant
		pos := a.w
		for _, p := range a.args {
			pos -= p.w
			if lo >= pos && hi < pos+p.w {
				return tt.Extract(hi-pos, lo-pos, p)
			}
		}
	}
	return tt.mk(&Term{op: OExtract, w: hi - lo + 1, args: []*Term{a}, a: hi, b: lo})
}

// Concat: parts[0] most significant.
func (tt *TermTable) Concat(parts ...*Term) *Term {
	if len(parts) == 1 {
		return parts[0]
	}
	w := 0
	allc := true
	for _, p := range parts {
		w += p.w
		if !p.IsConst() {
			allc = false
		}
	}
	if allc && w <= 64 {
		var v uint64
		for _, p := range parts {
			v = (v << uint(p.w)) | p.val
		}
		return tt.BV(w, v)
	}
	// recognise extract reassembly: extract(h1,l1,x) ++ extract(l1-1,l2,x) ...
	base := parts[0]
	if base.op == OExtract {
		x := base.args[0]
		hi := base.a
		lo := base.b
		ok := true
		for _, p := range parts[1:] {
			if p.op != OExtract || p.args[0] != x || p.a != lo-1 {
				ok = false
				break
			}
			lo = p.b
		}
		if ok {
			return tt.Extract(hi, lo, x)
		}
	}
	return tt.mk(&Term{op: OConcat, w: w, args: append([]*Term(nil), parts...)})
}

func (tt *TermTable) Zext(a *Term, w int) *Term {
	if a.w == w {
		return a
	}
	if a.w > w {
		return tt.Extract(w-1, 0, a)
	}
	if a.IsConst() {
		return tt.BV(w, a.val)
	}
	return tt.mk(&Term{op: OZext, w: w, args: []*Term{a}})
}

func (tt *TermTable) Sext(a *Term, w int) *Term {
	if a.w == w {
		return a
	}
	if a.w > w {
		return tt.Extract(w-1, 0, a)
	}
	if a.IsConst() {
		return tt.BV(w, uint64(a.SVal()))
	}
	return tt.mk(&Term{op: OSext, w: w, args: []*Term{a}})
}

// ---------- FP ----------

func (tt *TermTable) FpOfBits(b *Term) *Term {
	if b.w != 64 {
		panic("FpOfBits width")
	}
	if b.IsConst() {
		return tt.mk(&Term{op: OConst, w: SortFP, val: b.val})
	}
	return tt.mk(&Term{op: OFpOfBits, w: SortFP, args: []*Term{b}})
}

func (tt *TermTable) FpOfSInt(i *Term) *Term {
	if i.w != 64 {
		i = tt.Sext(i, 64)
	}
	if i.IsConst() {
		return tt.FPConst(float64(i.SVal()))
	}
	return tt.mk(&Term{op: OFpOfSInt, w: SortFP, args: []*Term{i}})
}

func (tt *TermTable) FpOfSIntR(i *Term) *Term {
	if i.IsConst() {
		return tt.FPConst(float64(i.SVal()))
	}
	return tt.mk(&Term{op: OFpOfSIntR, w: SortFP, args: []*Term{i}})
}

func fpc(t *Term) float64 { return math.Float64frombits(t.val) }

func (tt *TermTable) FpBin(op Op, a, b *Term) *Term {
	if a.IsConst() && b.IsConst() {
		x, y := fpc(a), fpc(b)
		switch op {
		case OFpSub:
			return tt.FPConst(x - y)
		case OFpAdd:
			return tt.FPConst(x + y)
		case OFpMul:
			return tt.FPConst(x * y)
		case OFpDiv:
			return tt.FPConst(x / y)
		}
	}
	return tt.mk(&Term{op: op, w: SortFP, args: []*Term{a, b}})
}

func (tt *TermTable) FpUn(op Op, a *Term) *Term {
	if a.IsConst() {
		switch op {
		case OFpNeg:
			return tt.FPConst(-fpc(a))
		case OFpAbs:
			return tt.FPConst(math.Abs(fpc(a)))
		case OFpTrunc:
			return tt.FPConst(math.Trunc(fpc(a)))
		}
	}
	if op == OFpTrunc && a.op == OFpOfSInt {
		return a // an exact integer
	}
	return tt.mk(&Term{op: op, w: SortFP, args: []*Term{a}})
}

func (tt *TermTable) FpIsNaN(a *Term) *Term {
	if a.IsConst() {
		return tt.Bool(math.IsNaN(fpc(a)))
	}
	if a.op == OFpOfSInt {
		return tt.F
	}
	return tt.mk(&Term{op: OFpIsNaN, w: SortBool, args: []*Term{a}})
}

// fpExactInt: the term denotes exactly the integer i (|i| < 2^53 must have been established by the caller).
func fpExactInt(a *Term) (*Term, bool) {
	if a.op == OFpOfSInt {
		return a.args[0], true
	}
	return nil, false
}

func (tt *TermTable) FpCmp(op Op, a, b *Term) *Term {
	if a.IsConst() && b.IsConst() {
		x, y := fpc(a), fpc(b)
		switch op {
		case OFpEq:
			return tt.Bool(x == y)
		case OFpLt:
			return tt.Bool(x < y)
		case OFpLe:
			return tt.Bool(x <= y)
		}
	}
	return tt.mk(&Term{op: op, w: SortBool, args: []*Term{a, b}})
}

func (tt *TermTable) FpSame(a, b *Term) *Term {
	if a.IsConst() && b.IsConst() {
		return tt.Bool(a.val == b.val)
	}
	return tt.mk(&Term{op: OFpSame, w: SortBool, args: []*Term{a, b}})
}

func (tt *TermTable) FpToSInt(a *Term) *Term {
	if a.IsConst() {
		f := fpc(a)
		if math.IsNaN(f) || f >= 9223372036854775808.0 || f < -9223372036854775808.0 {
			return tt.BV(64, 1<<63)
		}
		return tt.BV(64, uint64(int64(f)))
	}
	if i, ok := fpExactInt(a); ok {
		return i
	}
	if a.op == OFpOfBits {
		return tt.bvToSInt(a.args[0])
	}
	return tt.mk(&Term{op: OFpToSInt, w: 64, args: []*Term{a}})
}

// ---------- printing ----------

func bvLit(w int, v uint64) string {
	if w%4 == 0 {
		return fmt.Sprintf("#x%0*x", w/4, v&mask(w))
	}
	return fmt.Sprintf("#b%0*b", w, v&mask(w))
}

var opNames = map[Op]string{
	OAdd: "bvadd", OSub: "bvsub", OMul: "bvmul", OBvAnd: "bvand", OBvOr: "bvor", OBvXor: "bvxor",
	OShl: "bvshl", OLshr: "bvlshr", OAshr: "bvashr", OUdiv: "bvudiv", OSdiv: "bvsdiv", OUrem: "bvurem", OSrem: "bvsrem",
	OUlt: "bvult", OUle: "bvule", OSlt: "bvslt", OSle: "bvsle",
	OFpSub: "fp.sub RNE", OFpAdd: "fp.add RNE", OFpMul: "fp.mul RNE", OFpDiv: "fp.div RNE",
	OFpEq: "fp.eq", OFpLt: "fp.lt", OFpLe: "fp.leq", OFpSame: "=",
}

func (t *Term) SMT() string {
	var sb strings.Builder
	t.smt(&sb)
	return sb.String()
}

func (t *Term) smt(sb *strings.Builder) {
	switch t.op {
	case OConst:
		switch t.w {
		case SortBool:
			if t.val == 1 {
				sb.WriteString("true")
			} else {
				sb.WriteString("false")
			}
		case SortFP:
			fmt.Fprintf(sb, "((_ to_fp 11 53) %s)", bvLit(64, t.val))
		default:
			sb.WriteString(bvLit(t.w, t.val))
		}
	case OVar:
		sb.WriteString(t.name)
	case ONot:
		sb.WriteString("(not ")
		t.args[0].smt(sb)
		sb.WriteString(")")
	case OAnd, OOr, OConcat:
		switch t.op {
		case OAnd:
			sb.WriteString("(and")
		case OOr:
			sb.WriteString("(or")
		default:
			sb.WriteString("(concat")
		}
		for _, a := range t.args {
			sb.WriteString(" ")
			a.smt(sb)
		}
		sb.WriteString(")")
	case OEq:
		sb.WriteString("(= ")
		t.args[0].smt(sb)
		sb.WriteString(" ")
		t.args[1].smt(sb)
		sb.WriteString(")")
	case OIte:
		sb.WriteString("(ite ")
		t.args[0].smt(sb)
		sb.WriteString(" ")
		t.args[1].smt(sb)
		sb.WriteString(" ")
		t.args[2].smt(sb)
		sb.WriteString(")")
	case ONeg:
		sb.WriteString("(bvneg ")
		t.args[0].smt(sb)
		sb.WriteString(")")
	case OBvNot:
		sb.WriteString("(bvnot ")
		t.args[0].smt(sb)
		sb.WriteString(")")
	case OExtract:
		fmt.Fprintf(sb, "((_ extract %d %d) ", t.a, t.b)
		t.args[0].smt(sb)
		sb.WriteString(")")
	case OZext:
		fmt.Fprintf(sb, "((_ zero_extend %d) ", t.w-t.args[0].w)
		t.args[0].smt(sb)
		sb.WriteString(")")
	case OSext:
		fmt.Fprintf(sb, "((_ sign_extend %d) ", t.w-t.args[0].w)
		t.args[0].smt(sb)
		sb.WriteString(")")
	case OFpOfBits:
		sb.WriteString("((_ to_fp 11 53) ")
		t.args[0].smt(sb)
		sb.WriteString(")")
	case OFpOfSInt, OFpOfSIntR:
		sb.WriteString("((_ to_fp 11 53) RNE ")
		t.args[0].smt(sb)
		sb.WriteString(")")
	case OFpNeg:
		sb.WriteString("(fp.neg ")
		t.args[0].smt(sb)
		sb.WriteString(")")
	case OFpAbs:
		sb.WriteString("(fp.abs ")
		t.args[0].smt(sb)
		sb.WriteString(")")
	case OFpTrunc:
		sb.WriteString("(fp.roundToIntegral RTZ ")
		t.args[0].smt(sb)
		sb.WriteString(")")
	case OFpIsNaN:
		sb.WriteString("(fp.isNaN ")
		t.args[0].smt(sb)
		sb.WriteString(")")
	case OFpToSInt:
		// amd64 CVTTSD2SQ: NaN / out of range -> 0x8000000000000000
		x := t.args[0].SMT()
		lo := fmt.Sprintf("((_ to_fp 11 53) %s)", bvLit(64, math.Float64bits(-9223372036854775808.0)))
		hi := fmt.Sprintf("((_ to_fp 11 53) %s)", bvLit(64, math.Float64bits(9223372036854775808.0)))
		fmt.Fprintf(sb, "(ite (and (not (fp.isNaN %s)) (fp.geq %s %s) (fp.lt %s %s)) ((_ fp.to_sbv 64) RTZ %s) #x8000000000000000)", x, x, lo, x, hi, x)
	default:
		n, ok := opNames[t.op]
		if !ok {
			panic(fmt.Sprintf("smt: unknown op %d", t.op))
		}
		sb.WriteString("(")
		sb.WriteString(n)
		for _, a := range t.args {
			sb.WriteString(" ")
			a.smt(sb)
		}
		sb.WriteString(")")
	}
}

// Rebuild re-creates t over new arguments through the simplifying constructors.
func (tt *TermTable) Rebuild(t *Term, args []*Term) *Term {
	switch t.op {
	case OConst, OVar:
		return t
	case ONot:
		return tt.Not(args[0])
	case OAnd:
		return tt.And(args...)
	case OOr:
		return tt.Or(args...)
	case OEq:
		return tt.Eq(args[0], args[1])
	case OIte:
		return tt.Ite(args[0], args[1], args[2])
	case OAdd, OSub, OMul, OBvAnd, OBvOr, OBvXor, OShl, OLshr, OAshr, OUdiv, OSdiv, OUrem, OSrem:
		return tt.bin(t.op, args[0], args[1])
	case ONeg:
		return tt.Neg(args[0])
	case OBvNot:
		return tt.BvNot(args[0])
	case OUlt, OUle, OSlt, OSle:
		return tt.cmp(t.op, args[0], args[1])
	case OExtract:
		return tt.Extract(t.a, t.b, args[0])
	case OConcat:
		return tt.Concat(args...)
	case OZext:
		return tt.Zext(args[0], t.w)
	case OSext:
		return tt.Sext(args[0], t.w)
	case OFpOfBits:
		return tt.FpOfBits(args[0])
	}
	same := true
	for i := range args {
		if args[i] != t.args[i] {
			same = false
		}
	}
	if same {
		return t
	}
	return tt.mk(&Term{op: t.op, w: t.w, args: args, a: t.a, b: t.b})
}

// Vars collects the free variables of t.
func (t *Term) Vars(into map[*Term]bool) {
	if t.op == OVar {
		into[t] = true
		return
	}
	for _, a := range t.args {
		a.Vars(into)
	}
}

// ---------- evaluation under a model ----------

type Model map[string]uint64

// Eval evaluates t under m; ok=false if a variable is missing.
func (t *Term) Eval(m Model) (uint64, bool) {
	switch t.op {
	case OConst:
		return t.val, true
	case OVar:
		v, ok := m[t.name]
		return v & mask64(t.w), ok
	}
	vs := make([]uint64, len(t.args))
	for i, a := range t.args {
		v, ok := a.Eval(m)
		if !ok {
			return 0, false
		}
		vs[i] = v
	}
	b2u := func(b bool) uint64 {
		if b {
			return 1
		}
		return 0
	}
	sx := func(i int) int64 {
		w := t.args[i].w
		if w >= 64 || w <= 0 {
			return int64(vs[i])
		}
		sh := uint(64 - w)
		return int64(vs[i]<<sh) >> sh
	}
	w := t.w
	switch t.op {
	case ONot:
		return 1 - vs[0], true
	case OAnd:
		for _, v := range vs {
			if v == 0 {
				return 0, true
			}
		}
		return 1, true
	case OOr:
		for _, v := range vs {
			if v == 1 {
				return 1, true
			}
		}
		return 0, true
	case OEq:
		return b2u(vs[0] == vs[1]), true
	case OIte:
		if vs[0] == 1 {
			return vs[1], true
		}
		return vs[2], true
	case OAdd:
		return (vs[0] + vs[1]) & mask(w), true
	case OSub:
		return (vs[0] - vs[1]) & mask(w), true
	case OMul:
		return (vs[0] * vs[1]) & mask(w), true
	case ONeg:
		return (-vs[0]) & mask(w), true
	case OBvAnd:
		return vs[0] & vs[1], true
	case OBvOr:
		return vs[0] | vs[1], true
	case OBvXor:
		return vs[0] ^ vs[1], true
	case OBvNot:
		return (^vs[0]) & mask(w), true
	case OShl:
		if vs[1] >= uint64(w) {
			return 0, true
		}
		return (vs[0] << vs[1]) & mask(w), true
	case OLshr:
		if vs[1] >= uint64(w) {
			return 0, true
		}
		return vs[0] >> vs[1], true
	case OAshr:
		y := vs[1]
		if y >= uint64(w) {
			y = uint64(w - 1)
		}
		return uint64(sx(0)>>y) & mask(w), true
	case OUdiv:
		if vs[1] == 0 {
			return mask(w), true
		}
		return vs[0] / vs[1], true
	case OUrem:
		if vs[1] == 0 {
			return vs[0], true
		}
		return vs[0] % vs[1], true
	case OSdiv:
		if vs[1] == 0 {
			if sx(0) < 0 {
				return 1, true
			}
			return mask(w), true
		}
		if sx(1) == -1 {
			return (-vs[0]) & mask(w), true
		}
		return uint64(sx(0)/sx(1)) & mask(w), true
	case OSrem:
		if vs[1] == 0 {
			return vs[0], true
		}
		if sx(1) == -1 {
			return 0, true
		}
		return uint64(sx(0)%sx(1)) & mask(w), true
	case OUlt:
		return b2u(vs[0] < vs[1]), true
	case OUle:
		return b2u(vs[0] <= vs[1]), true
	case OSlt:
		return b2u(sx(0) < sx(1)), true
	case OSle:
		return b2u(sx(0) <= sx(1)), true
	case OExtract:
		return (vs[0] >> uint(t.b)) & mask(t.a-t.b+1), true
	case OConcat:
		if w > 64 {
			return 0, false
		}
		var v uint64
		for i, a := range t.args {
			v = (v << uint(a.w)) | vs[i]
		}
		return v, true
	case OZext:
		return vs[0], true
	case OSext:
		return uint64(sx(0)) & mask(w), true
	case OFpOfBits:
		return vs[0], true
	case OFpOfSInt, OFpOfSIntR:
		return math.Float64bits(float64(int64(vs[0]))), true
	case OFpSub:
		return math.Float64bits(math.Float64frombits(vs[0]) - math.Float64frombits(vs[1])), true
	case OFpAdd:
		return math.Float64bits(math.Float64frombits(vs[0]) + math.Float64frombits(vs[1])), true
	case OFpMul:
		return math.Float64bits(math.Float64frombits(vs[0]) * math.Float64frombits(vs[1])), true
	case OFpDiv:
		return math.Float64bits(math.Float64frombits(vs[0]) / math.Float64frombits(vs[1])), true
	case OFpNeg:
		return vs[0] ^ (1 << 63), true
	case OFpAbs:
		return vs[0] &^ (1 << 63), true
	case OFpTrunc:
		return math.Float64bits(math.Trunc(math.Float64frombits(vs[0]))), true
	case OFpEq:
		return b2u(math.Float64frombits(vs[0]) == math.Float64frombits(vs[1])), true
	case OFpLt:
		return b2u(math.Float64frombits(vs[0]) < math.Float64frombits(vs[1])), true
	case OFpLe:
		return b2u(math.Float64frombits(vs[0]) <= math.Float64frombits(vs[1])), true
	case OFpSame:
		return b2u(vs[0] == vs[1]), true
	case OFpIsNaN:
		return b2u(math.IsNaN(math.Float64frombits(vs[0]))), true
	case OFpToSInt:
		f := math.Float64frombits(vs[0])
		if math.IsNaN(f) || f >= 9223372036854775808.0 || f < -9223372036854775808.0 {
			return 1 << 63, true
		}
		return uint64(int64(f)), true
	}
	return 0, false
}

func mask64(w int) uint64 {
	if w <= 0 {
		return ^uint64(0)
	}
	return mask(w)
}

var _ = bits.Len
