package main

// Models of standard-library / third-party callees and the harness intrinsics.

import (
	"fmt"
	"go/types"
	"math"
	"strconv"
	"strings"

	"golang.org/x/tools/go/ssa"
)

type modelFn func(in *Interp, fn *ssa.Function, args []Value) Value

type ErrVal struct {
	msg Str
}

type bufState struct {
	elems []SElem
}

type hashState struct {
	pre []*Term
}

func (e *Engine) namedType(pkg, name string) types.Type {
	p := e.prog.ImportedPackage(pkg)
	if p == nil {
		panic("package not loaded: " + pkg)
	}
	o := p.Pkg.Scope().Lookup(name)
	if o == nil {
		panic("no type " + pkg + "." + name)
	}
	return o.Type()
}

func (in *Interp) newError(msg Str) Value {
	t := types.NewPointer(in.w.eng.namedType("errors", "errorString"))
	slot := new(Value)
	*slot = &ErrVal{msg: msg}
	return Iface{t: t, v: Ptr{slot}}
}

func (in *Interp) bufOf(p Ptr) *bufState {
	if p.p == nil {
		in.runtimePanic("nil buffer")
	}
	if b, ok := (*p.p).(*bufState); ok {
		return b
	}
	b := &bufState{}
	*p.p = b
	return b
}

func elemsOfBytes(s Slice) []SElem {
	out := make([]SElem, len(s.v))
	for i, e := range s.v {
		switch e := e.(type) {
		case *Term:
			out[i] = SElem{b: e}
		case *Tok:
			out[i] = SElem{tok: e}
		default:
			panic(fmt.Sprintf("byte slice element %T", e))
		}
	}
	return out
}

func bytesOfElems(es []SElem) Slice {
	out := make([]Value, len(es))
	for i, e := range es {
		if e.tok != nil {
			out[i] = e.tok
		} else {
			out[i] = e.b
		}
	}
	return Slice{v: out}
}

// formatting: only what jd's outputs depend on is modelled precisely.
func (in *Interp) sprintf(format Str, args Slice) Str {
	f, ok := format.concrete()
	if !ok {
		// a format that is itself a rope (fmt.Printf(text) with a rendered text): concrete byte
		// runs are formatted natively without operands, tokens are copied (the texts of
		// numbers, booleans and null hold no '%'; string leaves are checked), a symbolic byte
		// forks on being '%'
		if len(args.v) != 0 {
			panic(unsupported("fmt: symbolic format string with operands"))
		}
		var out []SElem
		var run []byte
		flush := func() {
			if len(run) == 0 {
				return
			}
			r := string(run)
			if fmt.Sprintf(r+"\x00") != fmt.Sprintf(r)+"\x00" {
				panic(unsupported("fmt: format verb continues into a symbolic part of the format"))
			}
			out = append(out, in.strConst(fmt.Sprintf(r)).elems...)
			run = nil
		}
		for _, e := range format.elems {
			switch {
			case e.tok != nil:
				if jvalMayHoldPercent(e.tok.val) {
					panic(unsupported("fmt: symbolic format holding a string value"))
				}
				flush()
				out = append(out, e)
			case e.b.IsConst():
				run = append(run, byte(e.b.val))
			default:
				if in.path.Branch(in.tt.Eq(e.b, in.tt.BV(8, '%'))) {
					panic(unsupported("fmt: symbolic '%' in a format string"))
				}
				flush()
				out = append(out, e)
			}
		}
		flush()
		return Str{elems: out}
	}
	var out []SElem
	ai := 0
	for i := 0; i < len(f); i++ {
		c := f[i]
		if c != '%' {
			out = append(out, SElem{b: in.tt.BV(8, uint64(c))})
			continue
		}
		i++
		if i >= len(f) {
			break
		}
		verb := f[i]
		if verb == '%' {
			out = append(out, SElem{b: in.tt.BV(8, '%')})
			continue
		}
		// skip flags
		for strings.ContainsRune("+-# 0123456789.", rune(verb)) && i+1 < len(f) {
			i++
			verb = f[i]
		}
		if ai >= len(args.v) {
			out = append(out, in.strConst("%!"+string(verb)+"(MISSING)").elems...)
			continue
		}
		a := args.v[ai].(Iface)
		ai++
		out = append(out, in.formatArg(a, verb).elems...)
	}
	return Str{elems: out}
}

// jvalMayHoldPercent: can the text of this value contain a '%'? (only string leaves / keys can)
func jvalMayHoldPercent(j *JVal) bool {
	switch j.kind {
	case 's':
		return true
	case 'a':
		for _, e := range j.arr {
			if jvalMayHoldPercent(e) {
				return true
			}
		}
	case 'o':
		for i, e := range j.vals {
			if strings.Contains(j.keys[i], "%") || jvalMayHoldPercent(e) {
				return true
			}
		}
	}
	return false
}

func (in *Interp) formatArg(a Iface, verb byte) Str {
	if a.t == nil {
		return in.strConst("<nil>")
	}
	switch v := a.v.(type) {
	case Str:
		if verb == 'q' {
			if c, ok := v.concrete(); ok {
				return in.strConst(strconv.Quote(c))
			}
			return Str{elems: append(append(in.strConst("\"").elems, v.elems...), in.strConst("\"").elems...)}
		}
		if _, isStringer := a.t.Underlying().(*types.Basic); isStringer {
			return v
		}
		return v
	case *Term:
		if v.IsConst() {
			switch {
			case v.w == SortBool:
				return in.strConst(strconv.FormatBool(v.val == 1))
			case v.w == SortFP:
				return in.strConst(fmt.Sprintf("%"+string(verb), fpc(v)))
			default:
				if verb == 'c' {
					return in.strConst(string(rune(v.SVal())))
				}
				if isSigned(a.t) {
					return in.strConst(fmt.Sprintf("%"+string(verb), v.SVal()))
				}
				return in.strConst(fmt.Sprintf("%"+string(verb), v.val))
			}
		}
		return in.strConst("<sym>")
	case Slice:
		// %s / %v of a []byte prints the bytes (used for pre-rendered JSON)
		if sl, ok := a.t.Underlying().(*types.Slice); ok && (verb == 's' || verb == 'v') {
			if b, ok := sl.Elem().Underlying().(*types.Basic); ok && b.Kind() == types.Uint8 {
				return Str{elems: elemsOfBytes(v)}
			}
		}
	case Ptr:
		if v.p != nil {
			if e, ok := (*v.p).(*ErrVal); ok {
				return e.msg
			}
		}
	}
	// error / Stringer values
	if a.t != nil {
		ms := in.prog.MethodSets.MethodSet(a.t)
		for i := 0; i < ms.Len(); i++ {
			if ms.At(i).Obj().Name() == "Error" {
				if s, ok := in.invoke(a, "Error").(Str); ok {
					return s
				}
			}
		}
	}
	return in.strConst("<" + typeString(a.t) + ">")
}

func (in *Interp) bytesCompare(a, b Slice) *Term {
	tt := in.tt
	// lexicographic compare -> {-1,0,1}
	n := len(a.v)
	if len(b.v) < n {
		n = len(b.v)
	}
	lt := tt.F
	eq := tt.T
	if n == 8 && len(a.v) == 8 && len(b.v) == 8 {
		pa := make([]*Term, 8)
		pb := make([]*Term, 8)
		for i := 0; i < 8; i++ {
			pa[i] = a.v[i].(*Term)
			pb[i] = b.v[i].(*Term)
		}
		wa := tt.Concat(pa...)
		wb := tt.Concat(pb...)
		lt = tt.Ult(wa, wb)
		eq = tt.Eq(wa, wb)
	} else {
		for i := 0; i < n; i++ {
			x, y := a.v[i].(*Term), b.v[i].(*Term)
			lt = tt.Or(lt, tt.And(eq, tt.Ult(x, y)))
			eq = tt.And(eq, tt.Eq(x, y))
		}
		if len(a.v) < len(b.v) {
			lt = tt.Or(lt, eq)
			eq = tt.F
		} else if len(a.v) > len(b.v) {
			eq = tt.F
		}
	}
	return tt.Ite(lt, tt.BV(64, ^uint64(0)), tt.Ite(eq, tt.BV(64, 0), tt.BV(64, 1)))
}

// bitsOfFloat returns the IEEE bit pattern of a float term as BV64.
func (in *Interp) bitsOfFloat(t *Term) *Term {
	tt := in.tt
	if b, ok := fpBits(tt, t); ok {
		return b
	}
	v := in.path.newVar("fb", 64)
	in.path.addPC(tt.FpSame(tt.FpOfBits(v), t))
	return v
}

func leBytes(tt *TermTable, w *Term) []*Term {
	out := make([]*Term, 8)
	for i := 0; i < 8; i++ {
		out[i] = tt.Extract(8*i+7, 8*i, w)
	}
	return out
}

func (e *Engine) registerModels() {
	m := e.models
	m["fmt.Errorf"] = func(in *Interp, fn *ssa.Function, a []Value) Value {
		return in.newError(in.sprintf(a[0].(Str), a[1].(Slice)))
	}
	m["errors.New"] = func(in *Interp, fn *ssa.Function, a []Value) Value {
		return in.newError(a[0].(Str))
	}
	m["(*errors.errorString).Error"] = func(in *Interp, fn *ssa.Function, a []Value) Value {
		return (*a[0].(Ptr).p).(*ErrVal).msg
	}
	m["fmt.Sprintf"] = func(in *Interp, fn *ssa.Function, a []Value) Value {
		return in.sprintf(a[0].(Str), a[1].(Slice))
	}
	m["fmt.Sprint"] = func(in *Interp, fn *ssa.Function, a []Value) Value {
		var out []SElem
		prevString := true
		for i, x := range a[0].(Slice).v {
			iv := x.(Iface)
			_, isString := iv.v.(Str)
			// fmt.Sprint: spaces are added between operands when neither is a string
			if i > 0 && !isString && !prevString {
				out = append(out, SElem{b: in.tt.BV(8, ' ')})
			}
			prevString = isString
			out = append(out, in.formatArg(iv, 'v').elems...)
		}
		return Str{elems: out}
	}
	// fmt.Fprint* into an in-memory writer (*bytes.Buffer, *strings.Builder)
	toWriter := func(in *Interp, w Value, s Str) Value {
		f, ok := w.(Iface)
		if !ok {
			panic(unsupported("fmt.Fprint to an unmodelled writer"))
		}
		p, ok := f.v.(Ptr)
		if !ok || p.p == nil {
			panic(unsupported("fmt.Fprint to an unmodelled writer"))
		}
		ts := typeString(f.t)
		if !strings.HasSuffix(ts, "bytes.Buffer") && !strings.HasSuffix(ts, "strings.Builder") {
			panic(unsupported("fmt.Fprint to " + ts))
		}
		b := in.bufOf(p)
		b.elems = append(b.elems, s.elems...)
		return Tuple{in.strLen(s), Iface{}}
	}
	m["fmt.Fprintf"] = func(in *Interp, fn *ssa.Function, a []Value) Value {
		return toWriter(in, a[0], in.sprintf(a[1].(Str), a[2].(Slice)))
	}
	m["fmt.Fprint"] = func(in *Interp, fn *ssa.Function, a []Value) Value {
		return toWriter(in, a[0], m["fmt.Sprint"](in, fn, a[1:]).(Str))
	}
	m["fmt.Fprintln"] = func(in *Interp, fn *ssa.Function, a []Value) Value {
		var out []SElem
		for i, x := range a[1].(Slice).v {
			if i > 0 {
				out = append(out, SElem{b: in.tt.BV(8, ' ')})
			}
			out = append(out, in.formatArg(x.(Iface), 'v').elems...)
		}
		out = append(out, SElem{b: in.tt.BV(8, '\n')})
		return toWriter(in, a[0], Str{elems: out})
	}
	nop := func(in *Interp, fn *ssa.Function, a []Value) Value { return nil }
	for _, n := range []string{"log.Printf", "log.Print", "log.Println"} {
		m[n] = nop
	}
	m["bytes.Compare"] = func(in *Interp, fn *ssa.Function, a []Value) Value {
		return in.bytesCompare(a[0].(Slice), a[1].(Slice))
	}
	m["bytes.NewBuffer"] = func(in *Interp, fn *ssa.Function, a []Value) Value {
		slot := new(Value)
		*slot = &bufState{elems: elemsOfBytes(a[0].(Slice))}
		return Ptr{slot}
	}
	m["bytes.NewBufferString"] = func(in *Interp, fn *ssa.Function, a []Value) Value {
		slot := new(Value)
		*slot = &bufState{elems: append([]SElem(nil), a[0].(Str).elems...)}
		return Ptr{slot}
	}
	writeString := func(in *Interp, fn *ssa.Function, a []Value) Value {
		b := in.bufOf(a[0].(Ptr))
		s := a[1].(Str)
		b.elems = append(b.elems, s.elems...)
		return Tuple{in.strLen(s), Iface{}}
	}
	write := func(in *Interp, fn *ssa.Function, a []Value) Value {
		b := in.bufOf(a[0].(Ptr))
		es := elemsOfBytes(a[1].(Slice))
		b.elems = append(b.elems, es...)
		return Tuple{in.strLen(Str{elems: es}), Iface{}}
	}
	writeByte := func(in *Interp, fn *ssa.Function, a []Value) Value {
		b := in.bufOf(a[0].(Ptr))
		b.elems = append(b.elems, SElem{b: a[1].(*Term)})
		return Iface{}
	}
	writeRune := func(in *Interp, fn *ssa.Function, a []Value) Value {
		b := in.bufOf(a[0].(Ptr))
		r := a[1].(*Term)
		if r.IsConst() {
			s := in.strConst(string(rune(r.SVal())))
			b.elems = append(b.elems, s.elems...)
			return Tuple{in.tt.BV(64, uint64(len(s.elems))), Iface{}}
		}
		// symbolic rune: must be ASCII (it came from an ASCII byte)
		if !in.path.Branch(in.tt.Ult(r, in.tt.BV(32, 0x80))) {
			panic(unsupported("WriteRune of non-ASCII symbolic rune"))
		}
		b.elems = append(b.elems, SElem{b: in.tt.Extract(7, 0, r)})
		return Tuple{in.tt.BV(64, 1), Iface{}}
	}
	str := func(in *Interp, fn *ssa.Function, a []Value) Value {
		p := a[0].(Ptr)
		if p.p == nil {
			return in.strConst("<nil>")
		}
		b := in.bufOf(p)
		return Str{elems: append([]SElem(nil), b.elems...)}
	}
	blen := func(in *Interp, fn *ssa.Function, a []Value) Value {
		b := in.bufOf(a[0].(Ptr))
		return in.strLen(Str{elems: b.elems})
	}
	for _, t := range []string{"(*bytes.Buffer)", "(*strings.Builder)"} {
		m[t+".WriteString"] = writeString
		m[t+".Write"] = write
		m[t+".WriteByte"] = writeByte
		m[t+".WriteRune"] = writeRune
		m[t+".String"] = str
		m[t+".Len"] = blen
	}
	m["(*bytes.Buffer).Bytes"] = func(in *Interp, fn *ssa.Function, a []Value) Value {
		b := in.bufOf(a[0].(Ptr))
		return bytesOfElems(b.elems)
	}
	m["hash/fnv.New64a"] = func(in *Interp, fn *ssa.Function, a []Value) Value {
		t := types.NewPointer(in.w.eng.namedType("hash/fnv", "sum64a"))
		slot := new(Value)
		*slot = &hashState{}
		return Iface{t: t, v: Ptr{slot}}
	}
	m["(*hash/fnv.sum64a).Write"] = func(in *Interp, fn *ssa.Function, a []Value) Value {
		h := (*a[0].(Ptr).p).(*hashState)
		s := a[1].(Slice)
		for _, e := range s.v {
			t, ok := e.(*Term)
			if !ok {
				panic(unsupported("hash of codec token bytes"))
			}
			h.pre = append(h.pre, t)
		}
		return Tuple{in.tt.BV(64, uint64(len(s.v))), Iface{}}
	}
	m["(*hash/fnv.sum64a).Sum64"] = func(in *Interp, fn *ssa.Function, a []Value) Value {
		h := (*a[0].(Ptr).p).(*hashState)
		site := ""
		for i := len(in.stack) - 1; i >= 0; i-- {
			if in.stack[i] != "hash" && in.stack[i] != "lib.hash" {
				site = in.stack[i]
				break
			}
		}
		if strings.HasSuffix(site, "jsonObject.hashCode") {
			// the raw key bytes are hashed at the same site as the prefixed object preimage
			pfx := []byte{0x00, 0x5D, 0x39, 0xA4, 0x18, 0x10, 0xEA, 0xD5}
			isObj := len(h.pre) >= 8
			for i := 0; isObj && i < 8; i++ {
				if !h.pre[i].IsConst() || byte(h.pre[i].val) != pfx[i] {
					isObj = false
				}
			}
			if !isObj {
				site += "#key"
			}
		}
		return in.path.hashApply(append([]*Term(nil), h.pre...), site)
	}
	m["(encoding/binary.littleEndian).PutUint64"] = func(in *Interp, fn *ssa.Function, a []Value) Value {
		s := a[1].(Slice)
		if len(s.v) < 8 {
			in.runtimePanic("index out of range [7] (PutUint64)")
		}
		bs := leBytes(in.tt, a[2].(*Term))
		for i := 0; i < 8; i++ {
			s.v[i] = bs[i]
		}
		return nil
	}
	m["(encoding/binary.littleEndian).AppendUint64"] = func(in *Interp, fn *ssa.Function, a []Value) Value {
		s := a[1].(Slice)
		out := append([]Value(nil), s.v...)
		for _, b := range leBytes(in.tt, a[2].(*Term)) {
			out = append(out, b)
		}
		return Slice{v: out}
	}
	m["(encoding/binary.littleEndian).Uint64"] = func(in *Interp, fn *ssa.Function, a []Value) Value {
		s := a[1].(Slice)
		if len(s.v) < 8 {
			in.runtimePanic("index out of range [7] (Uint64)")
		}
		parts := make([]*Term, 8)
		for i := 0; i < 8; i++ {
			parts[7-i] = s.v[i].(*Term)
		}
		return in.tt.Concat(parts...)
	}
	m["encoding/binary.Write"] = func(in *Interp, fn *ssa.Function, a []Value) Value {
		w := a[0].(Iface)
		data := a[2].(Iface)
		t, ok := data.v.(*Term)
		if !ok || t.w != SortFP {
			panic(unsupported("binary.Write of " + typeString(data.t)))
		}
		bits := in.bitsOfFloat(t)
		b := in.bufOf(w.v.(Ptr))
		for _, x := range leBytes(in.tt, bits) {
			b.elems = append(b.elems, SElem{b: x})
		}
		return Iface{}
	}
	m["math.Abs"] = func(in *Interp, fn *ssa.Function, a []Value) Value {
		return in.tt.FpUn(OFpAbs, a[0].(*Term))
	}
	m["math.Trunc"] = func(in *Interp, fn *ssa.Function, a []Value) Value {
		x := a[0].(*Term)
		if x.op == OFpOfBits {
			// pure bit-vector encoding (math.modf's own algorithm); finiteness carries over
			tb := in.tt.bvTruncBits(x.args[0])
			if in.path.finite[x.args[0].id] {
				in.path.finite[tb.id] = true
			}
			return in.tt.FpOfBits(tb)
		}
		return in.tt.FpUn(OFpTrunc, x)
	}
	m["math.IsNaN"] = func(in *Interp, fn *ssa.Function, a []Value) Value {
		t := a[0].(*Term)
		if in.finiteKnown(t) {
			return in.tt.F
		}
		return in.tt.FpIsNaN(t)
	}
	m["math.Float64bits"] = func(in *Interp, fn *ssa.Function, a []Value) Value {
		return in.bitsOfFloat(a[0].(*Term))
	}
	m["math.Float64frombits"] = func(in *Interp, fn *ssa.Function, a []Value) Value {
		return in.tt.FpOfBits(a[0].(*Term))
	}
	m["reflect.DeepEqual"] = func(in *Interp, fn *ssa.Function, a []Value) Value {
		return in.eqValue(a[0], a[1])
	}
	m["context.Background"] = func(in *Interp, fn *ssa.Function, a []Value) Value {
		return Iface{t: in.w.eng.namedType("context", "backgroundCtx"), v: Struct{Struct{}}}
	}
	m["(context.backgroundCtx).Done"] = func(in *Interp, fn *ssa.Function, a []Value) Value { return Ptr{} }
	m["(context.emptyCtx).Done"] = func(in *Interp, fn *ssa.Function, a []Value) Value { return Ptr{} }
	m["(context.backgroundCtx).Err"] = func(in *Interp, fn *ssa.Function, a []Value) Value { return Iface{} }
	m["sort.Strings"] = func(in *Interp, fn *ssa.Function, a []Value) Value {
		s := a[0].(Slice)
		// insertion sort on string <, forking on symbolic comparisons
		for i := 1; i < len(s.v); i++ {
			for j := i; j > 0; j-- {
				if in.path.Branch(in.strLess(s.v[j].(Str), s.v[j-1].(Str))) {
					s.v[j], s.v[j-1] = s.v[j-1], s.v[j]
				} else {
					break
				}
			}
		}
		return nil
	}
	m["sort.Sort"] = func(in *Interp, fn *ssa.Function, a []Value) Value {
		d := a[0].(Iface)
		n := int(in.concreteInt(in.invoke(d, "Len"), "sort len"))
		if n > 12 {
			panic(unsupported("sort.Sort of more than 12 elements"))
		}
		if sl, ok := d.v.(Slice); ok && n >= 2 && in.w.eng.params["SYMSORT"] == 1 && in.symbolicSort(d, sl, n) {
			return nil
		}
		// insertion sort through the real Len/Less/Swap of the argument (sort.Sort itself
		// uses insertion sort below 12 elements; larger inputs are outside every bound used)
		for i := 1; i < n; i++ {
			for j := i; j > 0; j-- {
				less := in.invoke(d, "Less", in.tt.BV(64, uint64(j)), in.tt.BV(64, uint64(j-1))).(*Term)
				if !in.path.Branch(less) {
					break
				}
				in.invoke(d, "Swap", in.tt.BV(64, uint64(j)), in.tt.BV(64, uint64(j-1)))
			}
		}
		return nil
	}
	m["strconv.Itoa"] = func(in *Interp, fn *ssa.Function, a []Value) Value {
		t := a[0].(*Term)
		v := in.path.concretize(t, "strconv.Itoa")
		return in.strConst(strconv.Itoa(int(v)))
	}
	m["strconv.FormatFloat"] = func(in *Interp, fn *ssa.Function, a []Value) Value {
		f := a[0].(*Term)
		if f.IsConst() {
			fm := byte(in.concreteInt(a[1], "fmt"))
			prec := int(in.concreteInt(a[2], "prec"))
			bits := int(in.concreteInt(a[3], "bits"))
			return in.strConst(strconv.FormatFloat(fpc(f), fm, prec, bits))
		}
		// the decimal text of a symbolic float: an opaque token (ParseFloat(FormatFloat(x)) == x)
		return Str{elems: []SElem{{tok: &Tok{val: &JVal{kind: 'f', f: f}}}}}
	}
	m["strconv.Atoi"] = func(in *Interp, fn *ssa.Function, a []Value) Value {
		s := a[0].(Str)
		c, ok := s.concrete()
		if !ok {
			c = in.concretizeStr(s)
		}
		n, err := strconv.Atoi(c)
		if err != nil {
			return Tuple{in.tt.BV(64, 0), in.newError(in.strConst(err.Error()))}
		}
		return Tuple{in.tt.BV(64, uint64(int64(n))), Iface{}}
	}
	m["strings.Split"] = func(in *Interp, fn *ssa.Function, a []Value) Value {
		s := a[0].(Str)
		sep, ok := a[1].(Str).concrete()
		if !ok || len(sep) != 1 {
			panic(unsupported("strings.Split with non-trivial separator"))
		}
		var parts []Value
		cur := []SElem{}
		for _, e := range s.elems {
			if e.tok == nil && !e.b.IsConst() {
				// a symbolic byte may be the separator
				if in.path.Branch(in.tt.Eq(e.b, in.tt.BV(8, uint64(sep[0])))) {
					parts = append(parts, Str{elems: cur})
					cur = []SElem{}
					continue
				}
				cur = append(cur, e)
				continue
			}
			if e.tok == nil && byte(e.b.val) == sep[0] {
				parts = append(parts, Str{elems: cur})
				cur = []SElem{}
				continue
			}
			cur = append(cur, e)
		}
		parts = append(parts, Str{elems: cur})
		return Slice{v: parts}
	}
	m["strings.TrimSpace"] = func(in *Interp, fn *ssa.Function, a []Value) Value {
		s := a[0].(Str)
		isSpace := func(e SElem) bool {
			if e.tok != nil {
				return false
			}
			if !e.b.IsConst() {
				sp := in.tt.F
				for _, c := range []byte{' ', '\t', '\n', '\r', '\v', '\f'} {
					sp = in.tt.Or(sp, in.tt.Eq(e.b, in.tt.BV(8, uint64(c))))
				}
				if in.path.Branch(sp) {
					return true
				}
				// non-ASCII symbolic space characters (U+0085, U+00A0 as UTF-8) are not followed
				return false
			}
			switch byte(e.b.val) {
			case ' ', '\t', '\n', '\r', '\v', '\f':
				return true
			}
			return false
		}
		es := s.elems
		if c, ok := s.concrete(); ok {
			return in.strConst(strings.TrimSpace(c))
		}
		for len(es) > 0 && isSpace(es[0]) {
			es = es[1:]
		}
		for len(es) > 0 && isSpace(es[len(es)-1]) {
			es = es[:len(es)-1]
		}
		return Str{elems: es}
	}
	m["strings.Join"] = func(in *Interp, fn *ssa.Function, a []Value) Value {
		var out []SElem
		for i, p := range a[0].(Slice).v {
			if i > 0 {
				out = append(out, a[1].(Str).elems...)
			}
			out = append(out, p.(Str).elems...)
		}
		return Str{elems: out}
	}
	m["strings.ReplaceAll"] = func(in *Interp, fn *ssa.Function, a []Value) Value {
		s := a[0].(Str)
		o, ok2 := a[1].(Str).concrete()
		n, ok3 := a[2].(Str).concrete()
		if !(ok2 && ok3) || len(o) == 0 {
			panic(unsupported("strings.ReplaceAll with symbolic pattern"))
		}
		if c, ok := s.concrete(); ok {
			return in.strConst(strings.ReplaceAll(c, o, n))
		}
		repl := in.strConst(n).elems
		var out []SElem
		i := 0
		for i < len(s.elems) {
			match := i+len(o) <= len(s.elems)
			for k := 0; match && k < len(o); k++ {
				e := s.elems[i+k]
				if e.tok != nil {
					match = false
				} else if !in.path.Branch(in.tt.Eq(e.b, in.tt.BV(8, uint64(o[k])))) {
					match = false
				}
			}
			if match {
				out = append(out, repl...)
				i += len(o)
			} else {
				out = append(out, s.elems[i])
				i++
			}
		}
		return Str{elems: out}
	}
	m["strings.LastIndex"] = func(in *Interp, fn *ssa.Function, a []Value) Value {
		s, ok1 := a[0].(Str).concrete()
		sub, ok2 := a[1].(Str).concrete()
		if !ok1 || !ok2 {
			panic(unsupported("strings.LastIndex on symbolic strings"))
		}
		return in.tt.BV(64, uint64(int64(strings.LastIndex(s, sub))))
	}
	concStr2 := func(name string, f func(a, b string) string) {
		m[name] = func(in *Interp, fn *ssa.Function, a []Value) Value {
			s, ok1 := a[0].(Str).concrete()
			c, ok2 := a[1].(Str).concrete()
			if !ok1 || !ok2 {
				panic(unsupported(name + " on symbolic strings"))
			}
			return in.strConst(f(s, c))
		}
	}
	concStr2("strings.Trim", strings.Trim)
	concStr2("strings.TrimLeft", strings.TrimLeft)
	// TrimLeft on a rope: concrete bytes are compared with the cut set, a symbolic byte forks on
	// membership, and a codec token is looked at through its first character: the text of a
	// number starts with '-' exactly when its sign bit is set (then the rest is the text of the
	// negated number), strings with '"', arrays with '[', objects with '{', null / booleans
	// with n / t / f.
	concTrimLeft := m["strings.TrimLeft"]
	m["strings.TrimLeft"] = func(in *Interp, fn *ssa.Function, a []Value) Value {
		str := a[0].(Str)
		cut, ok := a[1].(Str).concrete()
		if _, conc := str.concrete(); conc || !ok {
			return concTrimLeft(in, fn, a)
		}
		tt := in.tt
		es := str.elems
		for len(es) > 0 {
			e := es[0]
			if e.tok == nil {
				if e.b.IsConst() {
					if !strings.ContainsRune(cut, rune(byte(e.b.val))) || e.b.val >= 0x80 {
						break
					}
					es = es[1:]
					continue
				}
				var in_ []*Term
				for i := 0; i < len(cut); i++ {
					if cut[i] >= 0x80 {
						panic(unsupported("strings.TrimLeft: non-ASCII cut set on a symbolic string"))
					}
					in_ = append(in_, tt.Eq(e.b, tt.BV(8, uint64(cut[i]))))
				}
				if !in.path.Branch(tt.Or(in_...)) {
					break
				}
				es = es[1:]
				continue
			}
			j := e.tok.val
			if e.tok.yaml {
				panic(unsupported("strings.TrimLeft on a YAML token"))
			}
			switch j.kind {
			case 'f':
				if strings.ContainsAny(cut, "0123456789.eE+InfNa") {
					panic(unsupported("strings.TrimLeft: cut set with number characters on a number token"))
				}
				if strings.Contains(cut, "-") {
					bits := in.bitsOfFloat(j.f)
					if in.path.Branch(tt.Eq(tt.Extract(63, 63, bits), tt.BV(1, 1))) {
						// "-x" loses its sign; what remains is the text of the negated number
						nb := tt.BvOp(OBvAnd, bits, tt.BV(64, ^uint64(1<<63)))
						in.path.finite[nb.id] = true
						rest := append([]SElem{{tok: &Tok{val: &JVal{kind: 'f', f: tt.FpOfBits(nb)}}}}, es[1:]...)
						return Str{elems: rest}
					}
				}
			case 's':
				if strings.Contains(cut, "\"") {
					panic(unsupported("strings.TrimLeft: cut set with a quote on a string token"))
				}
			case 'a':
				if strings.Contains(cut, "[") {
					panic(unsupported("strings.TrimLeft: cut set with '[' on an array token"))
				}
			case 'o':
				if strings.Contains(cut, "{") {
					panic(unsupported("strings.TrimLeft: cut set with '{' on an object token"))
				}
			default:
				if strings.ContainsAny(cut, "ntf") {
					panic(unsupported("strings.TrimLeft: cut set with letters on a null / boolean token"))
				}
			}
			break
		}
		return Str{elems: es}
	}
	concStr2("strings.TrimRight", strings.TrimRight)
	concStr2("strings.TrimPrefix", strings.TrimPrefix)
	concStr2("strings.TrimSuffix", strings.TrimSuffix)
	m["strings.ToLower"] = func(in *Interp, fn *ssa.Function, a []Value) Value {
		s, ok := a[0].(Str).concrete()
		if !ok {
			panic(unsupported("strings.ToLower on symbolic string"))
		}
		return in.strConst(strings.ToLower(s))
	}
	m["strings.Contains"] = func(in *Interp, fn *ssa.Function, a []Value) Value {
		s, ok1 := a[0].(Str).concrete()
		sub, ok2 := a[1].(Str).concrete()
		if !ok1 || !ok2 {
			panic(unsupported("strings.Contains on symbolic strings"))
		}
		return in.tt.Bool(strings.Contains(s, sub))
	}
	m["strings.HasPrefix"] = func(in *Interp, fn *ssa.Function, a []Value) Value {
		s := a[0].(Str)
		pre := a[1].(Str)
		if len(pre.elems) > len(s.elems) {
			if s.hasTok() {
				panic(unsupported("HasPrefix on a token"))
			}
			return in.tt.F
		}
		cs := []*Term{}
		for i, pe := range pre.elems {
			e := s.elems[i]
			if e.tok != nil || pe.tok != nil {
				panic(unsupported("HasPrefix on a token"))
			}
			cs = append(cs, in.tt.Eq(e.b, pe.b))
		}
		return in.tt.And(cs...)
	}
	m["strings.Fields"] = func(in *Interp, fn *ssa.Function, a []Value) Value {
		s, ok := a[0].(Str).concrete()
		if !ok {
			panic(unsupported("strings.Fields on symbolic string"))
		}
		var out []Value
		for _, f := range strings.Fields(s) {
			out = append(out, in.strConst(f))
		}
		return Slice{v: out}
	}
	e.registerIntrinsics()
	e.registerCodecModels()
	e.registerCLIModels()
	e.registerGenericModels()
	e.registerScannerModels()
}

// symbolicSort sorts a slice of hash codes with a compare-exchange network: the real
// Less decides each comparator (its single branch joined by ite), the real Swap is
// executed and its effect merged under the comparator's condition. No fork.
func (in *Interp) symbolicSort(d Iface, sl Slice, n int) (ok bool) {
	tt := in.tt
	for _, e := range sl.v {
		if _, isArr := e.(Array); !isArr {
			return false
		}
		if _, packed := in.packBytes(e.(Array)); !packed {
			return false
		}
	}
	snapshot := func() []Value {
		out := make([]Value, len(sl.v))
		for i, e := range sl.v {
			out[i] = copyVal(e)
		}
		return out
	}
	orig := snapshot()
	defer func() {
		if r := recover(); r != nil {
			if _, isAbort := r.(mergeAbort); isAbort {
				in.path.merge = nil
				for i := range sl.v {
					sl.v[i] = orig[i]
				}
				ok = false
				return
			}
			panic(r)
		}
	}()
	for i := 0; i < n-1; i++ {
		for j := 0; j < n-1-i; j++ {
			args := []Value{tt.BV(64, uint64(j+1)), tt.BV(64, uint64(j))}
			c := in.callMergedBool(d, "Less", args...)
			if c.IsConst() && c.val == 0 {
				continue
			}
			before := snapshot()
			in.invoke(d, "Swap", args...)
			if c.IsConst() {
				continue
			}
			for k := range sl.v {
				wa, _ := in.packBytes(sl.v[k].(Array))
				wb, _ := in.packBytes(before[k].(Array))
				if wa == wb {
					continue
				}
				w := tt.Ite(c, wa, wb)
				bs := leBytes(tt, w)
				arr := make(Array, 8)
				for x := 0; x < 8; x++ {
					arr[x] = bs[x]
				}
				sl.v[k] = arr
			}
		}
	}
	return true
}

// callMergedBool calls a pure bool method; a single symbolic branch inside is joined, not forked.
func (in *Interp) callMergedBool(recv Iface, name string, args ...Value) *Term {
	p := in.path
	if p.merge != nil {
		panic(mergeAbort{})
	}
	p.merge = &mergeCtx{force: true}
	r1 := in.invoke(recv, name, args...).(*Term)
	cond := p.merge.cond
	if cond == nil {
		p.merge = nil
		return r1
	}
	p.merge = &mergeCtx{force: false}
	r2 := in.invoke(recv, name, args...).(*Term)
	if p.merge.cond != cond {
		panic(mergeAbort{})
	}
	p.merge = nil
	return in.tt.Ite(cond, r1, r2)
}

func (in *Interp) concretizeStr(s Str) string {
	b := make([]byte, len(s.elems))
	for i, e := range s.elems {
		if e.tok != nil {
			panic(unsupported("concretising a string holding a codec token"))
		}
		b[i] = byte(in.path.concretize(in.tt.Zext(e.b, 64), "string byte"))
	}
	return string(b)
}

// ---------- harness intrinsics ----------

func (e *Engine) registerIntrinsics() {
	for _, pp := range e.targetPaths {
		e.registerIntrinsicsFor(pp)
	}
}

func (e *Engine) registerIntrinsicsFor(pp string) {
	m := e.models
	m[pp+".vChoice"] = func(in *Interp, fn *ssa.Function, a []Value) Value {
		n := int(in.concreteInt(a[0], "vChoice"))
		v := in.path.Choice(n)
		if n > 1 {
			in.path.inputs = append(in.path.inputs, Input{Kind: "choice", conc: v})
		}
		return in.tt.BV(64, uint64(v))
	}
	m[pp+".vInt"] = func(in *Interp, fn *ssa.Function, a []Value) Value {
		lo := in.concreteInt(a[0], "vInt lo")
		hi := in.concreteInt(a[1], "vInt hi")
		p := in.path
		v := p.newVar("i", 64)
		if p.model != nil {
			p.model[v.name] = uint64(lo)
		}
		p.ranges[v.name] = [2]int64{lo, hi}
		p.addPC(in.tt.And(in.tt.Sle(in.tt.BV(64, uint64(lo)), v), in.tt.Sle(v, in.tt.BV(64, uint64(hi)))))
		p.inputs = append(p.inputs, Input{Kind: "int", t: v})
		return v
	}
	m[pp+".vBool"] = func(in *Interp, fn *ssa.Function, a []Value) Value {
		p := in.path
		v := p.newVar("b", SortBool)
		p.inputs = append(p.inputs, Input{Kind: "bool", t: v})
		return v
	}
	m[pp+".vByte"] = func(in *Interp, fn *ssa.Function, a []Value) Value {
		p := in.path
		v := p.newVar("c", 8)
		p.inputs = append(p.inputs, Input{Kind: "byte", t: v})
		return v
	}
	m[pp+".vF64"] = func(in *Interp, fn *ssa.Function, a []Value) Value {
		p := in.path
		tt := in.tt
		v := p.newVar("f", 64)
		p.finite[v.id] = true
		// finite, non-NaN: exponent != 0x7ff
		p.addPC(tt.Not(tt.Eq(tt.Extract(62, 52, v), tt.BV(11, 0x7ff))))
		p.inputs = append(p.inputs, Input{Kind: "f64", t: v})
		return tt.FpOfBits(v)
	}
	m[pp+".vAssume"] = func(in *Interp, fn *ssa.Function, a []Value) Value {
		in.path.Assume(a[0].(*Term))
		return nil
	}
	m[pp+".vAssert"] = func(in *Interp, fn *ssa.Function, a []Value) Value {
		msg, _ := a[1].(Str).concrete()
		in.path.Assert(a[0].(*Term), msg)
		return nil
	}
	m[pp+".vCover"] = func(in *Interp, fn *ssa.Function, a []Value) Value {
		l, _ := a[0].(Str).concrete()
		in.path.covers[l] = true
		return nil
	}
	m[pp+".vObserve"] = func(in *Interp, fn *ssa.Function, a []Value) Value {
		l, _ := a[0].(Str).concrete()
		in.path.observes = append(in.path.observes, obsVal{label: l, v: a[1]})
		return nil
	}
	m[pp+".vKnown"] = func(in *Interp, fn *ssa.Function, a []Value) Value {
		l, _ := a[0].(Str).concrete()
		return in.tt.Bool(in.path.known[l])
	}
	m[pp+".vMapOrder"] = func(in *Interp, fn *ssa.Function, a []Value) Value {
		in.path.mapOrder = a[0].(*Term).val == 1
		return nil
	}
	m[pp+".vMapReverse"] = func(in *Interp, fn *ssa.Function, a []Value) Value {
		in.path.mapReverse = a[0].(*Term).val == 1
		return nil
	}
	m[pp+".vParam"] = func(in *Interp, fn *ssa.Function, a []Value) Value {
		l, _ := a[0].(Str).concrete()
		if v, ok := in.w.eng.params[l]; ok {
			return in.tt.BV(64, uint64(int64(v)))
		}
		return a[1]
	}
	m[pp+".vAnd"] = func(in *Interp, fn *ssa.Function, a []Value) Value {
		return in.tt.And(a[0].(*Term), a[1].(*Term))
	}
	m[pp+".vOr"] = func(in *Interp, fn *ssa.Function, a []Value) Value {
		return in.tt.Or(a[0].(*Term), a[1].(*Term))
	}
	m[pp+".vIte"] = func(in *Interp, fn *ssa.Function, a []Value) Value {
		return in.tt.Ite(a[0].(*Term), a[1].(*Term), a[2].(*Term))
	}
	m[pp+".vSymbolic"] = func(in *Interp, fn *ssa.Function, a []Value) Value {
		return in.tt.T
	}
}

var _ = math.Abs
