module gosym

go 1.24.0

require (
	golang.org/x/tools v0.29.0
	gopkg.in/yaml.v2 v2.4.0
)

require (
	golang.org/x/mod v0.22.0 // indirect
	golang.org/x/sync v0.10.0 // indirect
)
