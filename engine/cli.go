package main

// OS / flag / stdio models for running the CLI main packages in-process (C14).
// Flags are registered by the real flag.Bool/String/... calls of the package's
// initialiser; the command line is parsed by a small model of flag.Parse; files,
// stdin, stdout and stderr are per-path virtual objects; os.Exit ends main.

import (
	"fmt"
	"go/types"
	"strconv"
	"strings"

	"golang.org/x/tools/go/ssa"
)

type flagEntry struct {
	name string
	kind string // bool, string, int, float
	slot *Value
	def  Value
}

type cliState struct {
	flags  []*flagEntry
	argv   []Str
	rest   []Str
	files  map[string]Str
	order  []string
	stdin  Str
	stdout []SElem
	stderr []SElem
	logs   int
}

type exitPanic struct{ code int }

func (p *Path) cliSt() *cliState {
	if p.cli == nil {
		p.cli = &cliState{files: map[string]Str{}}
	}
	return p.cli
}

func (c *cliState) lookup(name string) *flagEntry {
	for _, f := range c.flags {
		if f.name == name {
			return f
		}
	}
	return nil
}

func mustConc(s Str, what string) string {
	c, ok := s.concrete()
	if !ok {
		panic(unsupported("symbolic " + what))
	}
	return c
}

func (in *Interp) cliExit(code int) {
	panic(exitPanic{code})
}

// parseFlags models flag.Parse (package flag, ExitOnError).
func (in *Interp) parseFlags() {
	c := in.path.cliSt()
	args := c.argv
	for len(args) > 0 {
		a := args[0]
		// only the flag name part must be concrete
		es := a.elems
		if len(es) < 2 || es[0].tok != nil || !es[0].b.IsConst() || byte(es[0].b.val) != '-' {
			break
		}
		nameEnd := len(es)
		eq := -1
		for i, e := range es {
			if e.tok == nil && e.b.IsConst() && byte(e.b.val) == '=' {
				eq = i
				nameEnd = i
				break
			}
		}
		name := mustConc(Str{elems: es[:nameEnd]}, "flag name")
		if name == "--" {
			args = args[1:]
			break
		}
		name = strings.TrimPrefix(strings.TrimPrefix(name, "-"), "-")
		if name == "" || name[0] == '-' || name[0] == '=' {
			in.cliFail("bad flag syntax")
		}
		args = args[1:]
		f := c.lookup(name)
		if f == nil {
			in.cliFail("flag provided but not defined: -" + name)
		}
		var val Str
		hasVal := false
		if eq >= 0 {
			val = Str{elems: es[eq+1:]}
			hasVal = true
		}
		if f.kind == "bool" {
			b := true
			if hasVal {
				v, err := strconv.ParseBool(mustConc(val, "bool flag value"))
				if err != nil {
					in.cliFail("invalid boolean value")
				}
				b = v
			}
			*f.slot = in.tt.Bool(b)
			continue
		}
		if !hasVal {
			if len(args) == 0 {
				in.cliFail("flag needs an argument: -" + name)
			}
			val = args[0]
			args = args[1:]
		}
		switch f.kind {
		case "string":
			*f.slot = val
		case "int":
			n, err := strconv.Atoi(mustConc(val, "int flag value"))
			if err != nil {
				in.cliFail("invalid value for int flag")
			}
			*f.slot = in.tt.BV(64, uint64(int64(n)))
		case "float":
			if cs, ok := val.concrete(); ok {
				x, err := strconv.ParseFloat(cs, 64)
				if err != nil {
					in.cliFail("invalid value for float flag")
				}
				*f.slot = in.tt.FPConst(x)
			} else if len(val.elems) == 1 && val.elems[0].tok != nil && val.elems[0].tok.val.kind == 'f' {
				// the text of a (symbolic) number: strconv.ParseFloat(FormatFloat(x)) == x
				*f.slot = val.elems[0].tok.val.f
			} else {
				panic(unsupported("float flag value mixing bytes and tokens"))
			}
		}
	}
	c.rest = args
}

func (in *Interp) cliFail(msg string) {
	c := in.path.cliSt()
	c.stderr = append(c.stderr, in.strConst(msg+"\n").elems...)
	in.cliExit(2)
}

func (e *Engine) registerCLIModels() {
	m := e.models
	mkFlag := func(kind string) modelFn {
		return func(in *Interp, fn *ssa.Function, a []Value) Value {
			c := in.path.cliSt()
			name := mustConc(a[0].(Str), "flag name")
			slot := new(Value)
			*slot = copyVal(a[1])
			c.flags = append(c.flags, &flagEntry{name: name, kind: kind, slot: slot, def: copyVal(a[1])})
			return Ptr{slot}
		}
	}
	m["flag.Bool"] = mkFlag("bool")
	m["flag.String"] = mkFlag("string")
	m["flag.Int"] = mkFlag("int")
	m["flag.Float64"] = mkFlag("float")
	m["flag.Parse"] = func(in *Interp, fn *ssa.Function, a []Value) Value {
		in.parseFlags()
		return nil
	}
	m["flag.Args"] = func(in *Interp, fn *ssa.Function, a []Value) Value {
		c := in.path.cliSt()
		out := make([]Value, len(c.rest))
		for i, s := range c.rest {
			out[i] = s
		}
		return Slice{v: out}
	}
	m["flag.Arg"] = func(in *Interp, fn *ssa.Function, a []Value) Value {
		c := in.path.cliSt()
		i := int(in.concreteInt(a[0], "flag.Arg"))
		if i < 0 || i >= len(c.rest) {
			return Str{}
		}
		return c.rest[i]
	}
	m["flag.NArg"] = func(in *Interp, fn *ssa.Function, a []Value) Value {
		return in.tt.BV(64, uint64(len(in.path.cliSt().rest)))
	}
	m["os.Exit"] = func(in *Interp, fn *ssa.Function, a []Value) Value {
		in.cliExit(int(in.concreteInt(a[0], "exit code")))
		return nil
	}
	toStdout := func(in *Interp, s Str) {
		c := in.path.cliSt()
		c.stdout = append(c.stdout, s.elems...)
	}
	m["fmt.Print"] = func(in *Interp, fn *ssa.Function, a []Value) Value {
		var out []SElem
		for _, x := range a[0].(Slice).v {
			out = append(out, in.formatArg(x.(Iface), 'v').elems...)
		}
		toStdout(in, Str{elems: out})
		return Tuple{in.tt.BV(64, 0), Iface{}}
	}
	m["fmt.Println"] = func(in *Interp, fn *ssa.Function, a []Value) Value {
		var out []SElem
		for i, x := range a[0].(Slice).v {
			if i > 0 {
				out = append(out, SElem{b: in.tt.BV(8, ' ')})
			}
			out = append(out, in.formatArg(x.(Iface), 'v').elems...)
		}
		out = append(out, SElem{b: in.tt.BV(8, '\n')})
		toStdout(in, Str{elems: out})
		return Tuple{in.tt.BV(64, 0), Iface{}}
	}
	m["fmt.Printf"] = func(in *Interp, fn *ssa.Function, a []Value) Value {
		toStdout(in, in.sprintf(a[0].(Str), a[1].(Slice)))
		return Tuple{in.tt.BV(64, 0), Iface{}}
	}
	logf := func(in *Interp, s Str) {
		c := in.path.cliSt()
		c.logs++
		c.stderr = append(c.stderr, s.elems...)
		c.stderr = append(c.stderr, SElem{b: in.tt.BV(8, '\n')})
	}
	m["log.Printf"] = func(in *Interp, fn *ssa.Function, a []Value) Value {
		logf(in, in.sprintf(a[0].(Str), a[1].(Slice)))
		return nil
	}
	m["log.Print"] = func(in *Interp, fn *ssa.Function, a []Value) Value {
		var out []SElem
		for _, x := range a[0].(Slice).v {
			out = append(out, in.formatArg(x.(Iface), 'v').elems...)
		}
		logf(in, Str{elems: out})
		return nil
	}
	m["log.Println"] = m["log.Print"]
	m["log.Fatalf"] = func(in *Interp, fn *ssa.Function, a []Value) Value {
		logf(in, in.sprintf(a[0].(Str), a[1].(Slice)))
		in.cliExit(1)
		return nil
	}
	readFile := func(in *Interp, fn *ssa.Function, a []Value) Value {
		c := in.path.cliSt()
		name := mustConc(a[0].(Str), "file name")
		s, ok := c.files[name]
		if !ok {
			return Tuple{Slice{}, in.newError(in.strConst("open " + name + ": no such file or directory"))}
		}
		return Tuple{bytesOfElems(s.elems), Iface{}}
	}
	m["io/ioutil.ReadFile"] = readFile
	m["os.ReadFile"] = readFile
	writeFile := func(in *Interp, fn *ssa.Function, a []Value) Value {
		c := in.path.cliSt()
		name := mustConc(a[0].(Str), "file name")
		c.files[name] = Str{elems: elemsOfBytes(a[1].(Slice))}
		return Iface{}
	}
	m["io/ioutil.WriteFile"] = writeFile
	m["os.WriteFile"] = writeFile
	m["bufio.NewReader"] = func(in *Interp, fn *ssa.Function, a []Value) Value {
		slot := new(Value)
		*slot = "stdin-reader"
		return Ptr{slot}
	}
	readAll := func(in *Interp, fn *ssa.Function, a []Value) Value {
		c := in.path.cliSt()
		return Tuple{bytesOfElems(c.stdin.elems), Iface{}}
	}
	m["io/ioutil.ReadAll"] = readAll
	m["io.ReadAll"] = readAll
	m["path/filepath.Base"] = func(in *Interp, fn *ssa.Function, a []Value) Value {
		return in.strConst("jd")
	}
	for _, pp := range e.targetPaths {
		pp := pp
		m[pp+".vCLISetFile"] = func(in *Interp, fn *ssa.Function, a []Value) Value {
			c := in.path.cliSt()
			c.files[mustConc(a[0].(Str), "file name")] = a[1].(Str)
			return nil
		}
		m[pp+".vCLISetStdin"] = func(in *Interp, fn *ssa.Function, a []Value) Value {
			in.path.cliSt().stdin = a[0].(Str)
			return nil
		}
		m[pp+".vCLIFile"] = func(in *Interp, fn *ssa.Function, a []Value) Value {
			c := in.path.cliSt()
			s, ok := c.files[mustConc(a[0].(Str), "file name")]
			return Tuple{s, in.tt.Bool(ok)}
		}
		m[pp+".vCLIStdout"] = func(in *Interp, fn *ssa.Function, a []Value) Value {
			return Str{elems: append([]SElem(nil), in.path.cliSt().stdout...)}
		}
		m[pp+".vCLIStderrLines"] = func(in *Interp, fn *ssa.Function, a []Value) Value {
			return in.tt.BV(64, uint64(in.path.cliSt().logs))
		}
		m[pp+".vCLIRun"] = func(in *Interp, fn *ssa.Function, a []Value) (res Value) {
			c := in.path.cliSt()
			c.argv = nil
			for _, s := range a[0].(Slice).v {
				c.argv = append(c.argv, s.(Str))
			}
			c.rest = nil
			c.stdout, c.stderr, c.logs = nil, nil, 0
			for _, f := range c.flags {
				*f.slot = copyVal(f.def)
			}
			mainFn := in.w.eng.target.Func("main")
			if mainFn == nil {
				panic(unsupported("no main function"))
			}
			depth, stack := in.depth, len(in.stack)
			defer func() {
				if r := recover(); r != nil {
					if ex, ok := r.(exitPanic); ok {
						in.depth = depth
						in.stack = in.stack[:stack]
						res = in.tt.BV(64, uint64(int64(ex.code)))
						return
					}
					panic(r)
				}
			}()
			in.callFunction(mainFn, nil, nil)
			return in.tt.BV(64, 0)
		}
	}
}

var _ = fmt.Sprint
var _ = types.Typ
