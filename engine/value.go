package main

// Engine values. Heap structure is concrete on every path; scalars are Terms.

import (
	"fmt"
	"go/types"
	"strings"

	"golang.org/x/tools/go/ssa"
)

type Value interface{}

// Scalars: *Term (Bool, BV8/16/32/64, FP).

// SElem is one element of a string: a byte term, or an opaque codec token.
type SElem struct {
	b   *Term // BV8
	tok *Tok
}

// Str is an immutable string value.
type Str struct {
	elems []SElem
}

type Struct []Value
type Array []Value
type Tuple []Value

// Slice: native Go slice of slots gives faithful aliasing; capacity growth is ours.
type Slice struct {
	v []Value
}

type Iface struct {
	t types.Type // nil for the nil interface
	v Value
}

type Closure struct {
	fn  *ssa.Function
	env []Value
}

type MapObj struct {
	ents []*mapEnt
}

// MapRef is the map value (nil map: m == nil).
type MapRef struct {
	m *MapObj
}

// Ptr: pointer to a slot (nil pointer: p == nil).
type Ptr struct {
	p *Value
}

// bound method closure etc. are not needed.

type MapIter struct {
	ents []*mapEnt
	pos  int
	str  *Str // range over string
}

// ---------------------------------------------------------------------

func (in *Interp) strConst(s string) Str {
	e := make([]SElem, len(s))
	for i := 0; i < len(s); i++ {
		e[i] = SElem{b: in.tt.BV(8, uint64(s[i]))}
	}
	return Str{elems: e}
}

// concrete returns the Go string if s is fully concrete.
func (s Str) concrete() (string, bool) {
	b := make([]byte, len(s.elems))
	for i, e := range s.elems {
		if e.tok != nil || !e.b.IsConst() {
			return "", false
		}
		b[i] = byte(e.b.val)
	}
	return string(b), true
}

func (s Str) hasTok() bool {
	for _, e := range s.elems {
		if e.tok != nil {
			return true
		}
	}
	return false
}

func (s Str) String() string {
	var sb strings.Builder
	for _, e := range s.elems {
		switch {
		case e.tok != nil:
			sb.WriteString("⟨tok⟩")
		case e.b.IsConst():
			sb.WriteByte(byte(e.b.val))
		default:
			sb.WriteString("⟨" + e.b.SMT() + "⟩")
		}
	}
	return sb.String()
}

func (in *Interp) zero(t types.Type) Value {
	switch t := t.(type) {
	case *types.Basic:
		if t.Kind() == types.UntypedNil {
			panic("untyped nil has no zero value")
		}
		switch {
		case t.Info()&types.IsBoolean != 0:
			return in.tt.F
		case t.Info()&types.IsString != 0:
			return Str{}
		case t.Info()&types.IsFloat != 0:
			return in.tt.FPConst(0)
		case t.Kind() == types.UnsafePointer:
			return Ptr{}
		case t.Info()&types.IsInteger != 0:
			return in.tt.BV(intWidth(t), 0)
		}
		panic(fmt.Sprintf("zero: unsupported basic %v", t))
	case *types.Pointer:
		return Ptr{}
	case *types.Array:
		a := make(Array, t.Len())
		for i := range a {
			a[i] = in.zero(t.Elem())
		}
		return a
	case *types.Named:
		return in.zero(t.Underlying())
	case *types.Alias:
		return in.zero(types.Unalias(t))
	case *types.Interface:
		return Iface{}
	case *types.Slice:
		return Slice{}
	case *types.Struct:
		s := make(Struct, t.NumFields())
		for i := range s {
			s[i] = in.zero(t.Field(i).Type())
		}
		return s
	case *types.Tuple:
		if t.Len() == 1 {
			return in.zero(t.At(0).Type())
		}
		s := make(Tuple, t.Len())
		for i := range s {
			s[i] = in.zero(t.At(i).Type())
		}
		return s
	case *types.Chan:
		return Ptr{}
	case *types.Map:
		return MapRef{}
	case *types.Signature:
		return (*ssa.Function)(nil)
	case *types.TypeParam:
		panic("zero of type param")
	}
	panic(fmt.Sprintf("zero: unexpected type %T %v", t, t))
}

func intWidth(t *types.Basic) int {
	switch t.Kind() {
	case types.Int8, types.Uint8:
		return 8
	case types.Int16, types.Uint16:
		return 16
	case types.Int32, types.Uint32, types.UntypedRune:
		return 32
	default:
		return 64
	}
}

func isSigned(t types.Type) bool {
	b, ok := t.Underlying().(*types.Basic)
	if !ok {
		return false
	}
	return b.Info()&types.IsInteger != 0 && b.Info()&types.IsUnsigned == 0
}

// copyVal copies value-semantics aggregates (struct, array).
func copyVal(v Value) Value {
	switch v := v.(type) {
	case Struct:
		n := make(Struct, len(v))
		for i, f := range v {
			n[i] = copyVal(f)
		}
		return n
	case Array:
		n := make(Array, len(v))
		for i, f := range v {
			n[i] = copyVal(f)
		}
		return n
	case Tuple:
		n := make(Tuple, len(v))
		for i, f := range v {
			n[i] = copyVal(f)
		}
		return n
	}
	return v
}

// eqValue builds the term for Go's == on two values of the same static type.
func (in *Interp) eqValue(a, b Value) *Term {
	tt := in.tt
	switch x := a.(type) {
	case *Term:
		y := b.(*Term)
		if x.w == SortFP {
			return in.fpEq(x, y)
		}
		return tt.Eq(x, y)
	case Str:
		return in.strEq(x, b.(Str))
	case Ptr:
		return tt.Bool(x.p == b.(Ptr).p)
	case MapRef:
		return tt.Bool(x.m == b.(MapRef).m)
	case Slice:
		// only comparison with nil is legal
		y := b.(Slice)
		return tt.Bool(x.v == nil && y.v == nil)
	case Iface:
		y := b.(Iface)
		if x.t == nil || y.t == nil {
			return tt.Bool(x.t == nil && y.t == nil)
		}
		if !types.Identical(x.t, y.t) {
			return tt.F
		}
		return in.eqValue(x.v, y.v)
	case Struct:
		y := b.(Struct)
		cs := make([]*Term, len(x))
		for i := range x {
			cs[i] = in.eqValue(x[i], y[i])
		}
		return tt.And(cs...)
	case Array:
		y := b.(Array)
		if px, ok := in.packBytes(x); ok {
			if py, ok := in.packBytes(y); ok {
				return in.eqHashWord(px, py)
			}
		}
		cs := make([]*Term, len(x))
		for i := range x {
			cs[i] = in.eqValue(x[i], y[i])
		}
		return tt.And(cs...)
	case *ssa.Function:
		y, _ := b.(*ssa.Function)
		return tt.Bool(x == y)
	case *Closure:
		if y, ok := b.(*ssa.Function); ok && y == nil {
			return tt.F
		}
		panic(unsupported("closure comparison"))
	}
	panic(unsupported(fmt.Sprintf("eqValue on %T", a)))
}

// packBytes turns an [8]byte of byte terms into one little-endian BV64 word.
func (in *Interp) packBytes(a Array) (*Term, bool) {
	if len(a) != 8 {
		return nil, false
	}
	parts := make([]*Term, 8)
	for i := 0; i < 8; i++ {
		t, ok := a[i].(*Term)
		if !ok || t.w != 8 {
			return nil, false
		}
		parts[7-i] = t
	}
	return in.tt.Concat(parts...), true
}

// eqHashWord compares two 64-bit words that may be idealised hash codes.
func (in *Interp) eqHashWord(x, y *Term) *Term {
	if in.path != nil {
		if r, ok := in.path.hashWordEq(x, y); ok {
			return r
		}
	}
	return in.tt.Eq(x, y)
}

func (in *Interp) strEq(x, y Str) *Term {
	tt := in.tt
	if !x.hasTok() && !y.hasTok() {
		if len(x.elems) != len(y.elems) {
			return tt.F
		}
		cs := make([]*Term, len(x.elems))
		for i := range x.elems {
			cs[i] = tt.Eq(x.elems[i].b, y.elems[i].b)
		}
		return tt.And(cs...)
	}
	return in.ropeEq(x, y)
}

type unsupportedErr struct{ msg string }

func unsupported(msg string) unsupportedErr { return unsupportedErr{msg} }

func typeString(t types.Type) string {
	if t == nil {
		return "<nil>"
	}
	return types.TypeString(t, nil)
}
