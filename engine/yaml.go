package main

// yaml.v2 model (used by the -yaml legs of C14). Same structural scheme as the JSON model:
// Marshal yields a token (or concrete text through the real yaml.v2), Unmarshal accepts concrete
// text (real yaml.v2) or blanks around one YAML token. Deviation from the real decoder, stated:
// numbers decode to float64 (the real decoder yields int for integral values); jd's only
// consumer, NewJsonNode, converts both to the same jsonNumber.

import (
	"sync"
	_ "unsafe"
	"fmt"
	"go/types"
	"math"
	"sort"

	"golang.org/x/tools/go/ssa"
	yaml "gopkg.in/yaml.v2"
)

func (in *Interp) nativeOfJ(j *JVal, m Model) interface{} {
	ev := func(t *Term) uint64 {
		if t.IsConst() {
			return t.val
		}
		v, ok := t.Eval(m)
		if !ok {
			panic("nativeOfJ: cannot evaluate")
		}
		return v
	}
	switch j.kind {
	case 'n':
		return nil
	case 'b':
		return ev(j.b) == 1
	case 'f':
		return math.Float64frombits(ev(j.f))
	case 's':
		bs := make([]byte, len(j.s.elems))
		for i, e := range j.s.elems {
			bs[i] = byte(ev(e.b))
		}
		return string(bs)
	case 'a':
		out := make([]interface{}, len(j.arr))
		for i, e := range j.arr {
			out[i] = in.nativeOfJ(e, m)
		}
		return out
	case 'o':
		out := map[string]interface{}{}
		for i, k := range j.keys {
			out[k] = in.nativeOfJ(j.vals[i], m)
		}
		return out
	}
	return nil
}

// yaml.v2 keeps one piece of process-global state: FutureLineWrap() switches the folding of
// long lines off for every later Marshal. The model keeps it per path (Path.yamlNoWrap) and
// sets the real package variable around each native Marshal.
//
//go:linkname yamlDisableLineWrapping gopkg.in/yaml%2ev2.disableLineWrapping
var yamlDisableLineWrapping bool

var yamlGlobalMu sync.Mutex

func (in *Interp) renderYamlJ(j *JVal, m Model) string {
	yamlGlobalMu.Lock()
	defer yamlGlobalMu.Unlock()
	yamlDisableLineWrapping = in.path != nil && in.path.yamlNoWrap
	defer func() { yamlDisableLineWrapping = false }()
	b, err := yaml.Marshal(in.nativeOfJ(j, m))
	if err != nil {
		panic(unsupported("yaml.Marshal: " + err.Error()))
	}
	return string(b)
}

func jvalOfYamlNative(in *Interp, x interface{}) *JVal {
	switch x := x.(type) {
	case nil:
		return &JVal{kind: 'n'}
	case bool:
		return &JVal{kind: 'b', b: in.tt.Bool(x)}
	case int:
		return &JVal{kind: 'f', f: in.tt.FPConst(float64(x))}
	case int64:
		return &JVal{kind: 'f', f: in.tt.FPConst(float64(x))}
	case uint64:
		return &JVal{kind: 'f', f: in.tt.FPConst(float64(x))}
	case float64:
		return &JVal{kind: 'f', f: in.tt.FPConst(x)}
	case string:
		return &JVal{kind: 's', s: in.strConst(x)}
	case []interface{}:
		j := &JVal{kind: 'a', arr: make([]*JVal, len(x))}
		for i, e := range x {
			j.arr[i] = jvalOfYamlNative(in, e)
		}
		return j
	case map[interface{}]interface{}:
		type kv struct {
			k string
			v interface{}
		}
		var kvs []kv
		for k, v := range x {
			ks, ok := k.(string)
			if !ok {
				panic(unsupported(fmt.Sprintf("yaml map key of type %T", k)))
			}
			kvs = append(kvs, kv{ks, v})
		}
		sort.Slice(kvs, func(i, j int) bool { return kvs[i].k < kvs[j].k })
		j := &JVal{kind: 'o'}
		for _, e := range kvs {
			j.keys = append(j.keys, e.k)
			j.vals = append(j.vals, jvalOfYamlNative(in, e.v))
		}
		return j
	}
	panic(unsupported(fmt.Sprintf("yaml value of type %T", x)))
}

var tMapII = types.NewMap(tEmptyIface, tEmptyIface)

// yamlDecoded: yaml.v2's shapes for interface{} targets (maps are map[interface{}]interface{}).
func (in *Interp) yamlDecoded(j *JVal) Value {
	switch j.kind {
	case 'n':
		return Iface{}
	case 'b':
		return Iface{t: types.Typ[types.Bool], v: j.b}
	case 'f':
		return Iface{t: types.Typ[types.Float64], v: j.f}
	case 's':
		return Iface{t: types.Typ[types.String], v: j.s}
	case 'a':
		out := make([]Value, len(j.arr))
		for i, e := range j.arr {
			out[i] = in.yamlDecoded(e)
		}
		return Iface{t: tSliceI, v: Slice{v: out}}
	case 'o':
		m := &MapObj{}
		for i, k := range j.keys {
			m.ents = append(m.ents, &mapEnt{k: Iface{t: types.Typ[types.String], v: in.strConst(k)}, v: in.yamlDecoded(j.vals[i])})
		}
		return Iface{t: tMapII, v: MapRef{m: m}}
	}
	return Iface{}
}

func (e *Engine) registerYamlModels() {
	m := e.models
	m["gopkg.in/yaml.v2.Marshal"] = func(in *Interp, fn *ssa.Function, a []Value) (res Value) {
		defer func() {
			if r := recover(); r != nil {
				if me, ok := r.(marshalErr); ok {
					res = Tuple{Slice{}, in.newError(in.strConst("yaml: " + me.msg))}
					return
				}
				panic(r)
			}
		}()
		v := a[0].(Iface)
		var j *JVal
		if v.t == nil {
			j = &JVal{kind: 'n'}
		} else {
			j = in.jvalOf(v.v, v.t)
		}
		if j.concrete() {
			return Tuple{bytesOfElems(in.strConst(in.renderYamlJ(j, nil)).elems), Iface{}}
		}
		return Tuple{bytesOfElems([]SElem{{tok: &Tok{val: j, yaml: true}}}), Iface{}}
	}
	m["gopkg.in/yaml.v2.FutureLineWrap"] = func(in *Interp, fn *ssa.Function, a []Value) Value {
		in.path.yamlNoWrap = true
		return nil
	}
	m["gopkg.in/yaml.v2.Unmarshal"] = func(in *Interp, fn *ssa.Function, a []Value) Value {
		data := Str{elems: elemsOfBytes(a[0].(Slice))}
		dst := a[1].(Iface)
		p := dst.v.(Ptr)
		var j *JVal
		if c, ok := data.concrete(); ok {
			var x interface{}
			if err := yaml.Unmarshal([]byte(c), &x); err != nil {
				return in.newError(in.strConst(err.Error()))
			}
			j = jvalOfYamlNative(in, x)
		} else {
			es := data.elems
			for len(es) > 0 && isBlank(es[0]) {
				es = es[1:]
			}
			for len(es) > 0 && isBlank(es[len(es)-1]) {
				es = es[:len(es)-1]
			}
			if len(es) != 1 || es[0].tok == nil {
				panic(unsupported("YAML decode of text mixing bytes and tokens"))
			}
			// a JSON token is valid YAML (flow style) for the value trees used here
			j = es[0].tok.val
		}
		*p.p = in.yamlDecoded(j)
		return Iface{}
	}
}
