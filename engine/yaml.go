package main

// yaml.v2 model: not yet built; calls abort the path as unsupported.

func (e *Engine) registerYamlModels() {}

func (in *Interp) renderYamlJ(j *JVal, m Model) string {
	panic(unsupported("yaml rendering"))
}
