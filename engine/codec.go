package main

// Structural model of encoding/json (and, for the CLI harnesses, yaml.v2).
//
// Marshal(v) yields the JSON value tree J obtained by following encoding/json's
// rules on the engine value; if J is fully concrete it is rendered into concrete
// bytes (leaves through the real encoding/json), otherwise it stays an opaque
// token Tok(J) inside the string. Unmarshal accepts concrete text (decoded by the
// real encoding/json) or blanks around exactly one token.
//
// Axioms encoded (properties of encoding/json, validated by the self-test, not
// proved): Marshal is injective on value trees; Unmarshal∘Marshal is the identity
// on them (finite numbers, valid UTF-8 strings); a token is a single line and is
// self-delimiting.

import (
	yaml "gopkg.in/yaml.v2"
	"bytes"
	"encoding/base64"
	"encoding/json"
	"fmt"
	"go/types"
	"math"
	"reflect"
	"sort"
	"strconv"
	"strings"

	"golang.org/x/tools/go/ssa"
)

type Tok struct {
	val    *JVal
	yaml   bool
	lenVar *Term
}

type JVal struct {
	kind byte // 'n' null, 'b' bool, 'f' number, 's' string, 'a' array, 'o' object
	b    *Term
	f    *Term // FP term
	s    Str
	arr  []*JVal
	keys []string
	vals []*JVal
}

func (j *JVal) concrete() bool {
	switch j.kind {
	case 'n':
		return true
	case 'b':
		return j.b.IsConst()
	case 'f':
		return j.f.IsConst()
	case 's':
		_, ok := j.s.concrete()
		return ok
	case 'a':
		for _, e := range j.arr {
			if !e.concrete() {
				return false
			}
		}
		return true
	case 'o':
		for _, e := range j.vals {
			if !e.concrete() {
				return false
			}
		}
		return true
	}
	return false
}

func (in *Interp) tokLen(t *Tok) *Term {
	if t.lenVar == nil {
		v := in.path.newVar("tl", 64)
		if in.path.model != nil {
			in.path.model[v.name] = 1
		}
		in.path.addPC(in.tt.And(in.tt.Ule(in.tt.BV(64, 1), v), in.tt.Ule(v, in.tt.BV(64, 1<<20))))
		t.lenVar = v
	}
	return t.lenVar
}

// ---------- rendering ----------

func marshalLeaf(x interface{}) string {
	b, err := json.Marshal(x)
	if err != nil {
		panic(unsupported("json.Marshal leaf: " + err.Error()))
	}
	return string(b)
}

// renderJ renders a value tree under a model (nil model: tree must be concrete).
func (in *Interp) renderJ(j *JVal, m Model, sb *strings.Builder) {
	ev := func(t *Term) uint64 {
		if t.IsConst() {
			return t.val
		}
		v, ok := t.Eval(m)
		if !ok {
			panic("renderJ: cannot evaluate")
		}
		return v
	}
	switch j.kind {
	case 'n':
		sb.WriteString("null")
	case 'b':
		if ev(j.b) == 1 {
			sb.WriteString("true")
		} else {
			sb.WriteString("false")
		}
	case 'f':
		f := math.Float64frombits(ev(j.f))
		sb.WriteString(marshalLeaf(f))
	case 's':
		bs := make([]byte, len(j.s.elems))
		for i, e := range j.s.elems {
			bs[i] = byte(ev(e.b))
		}
		sb.WriteString(marshalLeaf(string(bs)))
	case 'a':
		sb.WriteString("[")
		for i, e := range j.arr {
			if i > 0 {
				sb.WriteString(",")
			}
			in.renderJ(e, m, sb)
		}
		sb.WriteString("]")
	case 'o':
		sb.WriteString("{")
		for i, e := range j.vals {
			if i > 0 {
				sb.WriteString(",")
			}
			sb.WriteString(marshalLeaf(j.keys[i]))
			sb.WriteString(":")
			in.renderJ(e, m, sb)
		}
		sb.WriteString("}")
	}
}

func (in *Interp) renderTok(t *Tok, m Model) string {
	var sb strings.Builder
	if t.yaml {
		return in.renderYamlJ(t.val, m)
	}
	in.renderJ(t.val, m, &sb)
	return sb.String()
}

// strOfJ: concrete text or a token.
func (in *Interp) strOfJ(j *JVal) Str {
	if j.concrete() {
		var sb strings.Builder
		in.renderJ(j, nil, &sb)
		return in.strConst(sb.String())
	}
	return Str{elems: []SElem{{tok: &Tok{val: j}}}}
}

// ---------- value -> tree (Marshal) ----------

type marshalErr struct{ msg string }

func (in *Interp) hasMethod(t types.Type, name string) *ssa.Function {
	ms := in.prog.MethodSets.MethodSet(t)
	for i := 0; i < ms.Len(); i++ {
		if ms.At(i).Obj().Name() == name {
			return in.prog.MethodValue(ms.At(i))
		}
	}
	return nil
}

func (in *Interp) jvalOf(v Value, t types.Type) *JVal {
	tt := in.tt
	if iv, ok := v.(Iface); ok {
		if _, isI := t.Underlying().(*types.Interface); isI {
			if iv.t == nil {
				return &JVal{kind: 'n'}
			}
			return in.jvalOf(iv.v, iv.t)
		}
	}
	if _, isNamed := t.(*types.Named); isNamed {
		if f := in.hasMethod(t, "MarshalJSON"); f != nil {
			if p, isPtr := v.(Ptr); isPtr && p.p == nil {
				return &JVal{kind: 'n'}
			}
			r := in.callFunction(f, []Value{v}, nil).(Tuple)
			if e := r[1].(Iface); e.t != nil {
				panic(marshalErr{"MarshalJSON error"})
			}
			s := Str{elems: elemsOfBytes(r[0].(Slice))}
			return in.parseRope(s)
		}
	}
	switch u := t.Underlying().(type) {
	case *types.Basic:
		x := v
		switch {
		case u.Info()&types.IsBoolean != 0:
			return &JVal{kind: 'b', b: x.(*Term)}
		case u.Info()&types.IsFloat != 0:
			f := x.(*Term)
			if f.IsConst() {
				fv := fpc(f)
				if math.IsNaN(fv) || math.IsInf(fv, 0) {
					panic(marshalErr{"unsupported value"})
				}
			} else if !in.finiteKnown(f) {
				panic(unsupported("json.Marshal of float not known finite"))
			}
			return &JVal{kind: 'f', f: f}
		case u.Info()&types.IsInteger != 0:
			it := x.(*Term)
			if fb, ok := tt.floatOfTruncated(it); ok {
				// an int64 obtained from a float: its decimal text reads back as that integer
				in.path.finite[fb.id] = true
				return &JVal{kind: 'f', f: tt.FpOfBits(fb)}
			}
			if !it.IsConst() {
				in.requireSmallInt(it)
			}
			if u.Info()&types.IsUnsigned != 0 {
				return &JVal{kind: 'f', f: tt.FpOfSInt(tt.Zext(it, 64))}
			}
			return &JVal{kind: 'f', f: tt.FpOfSInt(tt.Sext(it, 64))}
		case u.Info()&types.IsString != 0:
			s := x.(Str)
			if s.hasTok() {
				panic(unsupported("json.Marshal of a string holding a token"))
			}
			return &JVal{kind: 's', s: s}
		}
	case *types.Slice:
		s := v.(Slice)
		if s.v == nil {
			return &JVal{kind: 'n'}
		}
		if eb, ok := u.Elem().Underlying().(*types.Basic); ok && eb.Kind() == types.Uint8 {
			bs := make([]byte, len(s.v))
			for i, e := range s.v {
				t, ok := e.(*Term)
				if !ok || !t.IsConst() {
					panic(unsupported("json.Marshal of symbolic []byte"))
				}
				bs[i] = byte(t.val)
			}
			return &JVal{kind: 's', s: in.strConst(base64.StdEncoding.EncodeToString(bs))}
		}
		j := &JVal{kind: 'a', arr: make([]*JVal, len(s.v))}
		for i, e := range s.v {
			j.arr[i] = in.jvalOf(e, u.Elem())
		}
		return j
	case *types.Array:
		a := v.(Array)
		j := &JVal{kind: 'a', arr: make([]*JVal, len(a))}
		for i, e := range a {
			j.arr[i] = in.jvalOf(e, u.Elem())
		}
		return j
	case *types.Map:
		m := v.(MapRef)
		if m.m == nil {
			return &JVal{kind: 'n'}
		}
		type kv struct {
			k string
			v Value
		}
		var kvs []kv
		for _, e := range m.m.ents {
			ks, ok := e.k.(Str)
			if !ok {
				panic(unsupported("json.Marshal of map with non-string keys"))
			}
			c, ok := ks.concrete()
			if !ok {
				panic(unsupported("json.Marshal of map with symbolic keys"))
			}
			kvs = append(kvs, kv{c, e.v})
		}
		sort.Slice(kvs, func(i, j int) bool { return kvs[i].k < kvs[j].k })
		j := &JVal{kind: 'o'}
		for _, e := range kvs {
			j.keys = append(j.keys, e.k)
			j.vals = append(j.vals, in.jvalOf(e.v, u.Elem()))
		}
		return j
	case *types.Struct:
		st := v.(Struct)
		j := &JVal{kind: 'o'}
		for i := 0; i < u.NumFields(); i++ {
			f := u.Field(i)
			if !f.Exported() {
				continue
			}
			name := f.Name()
			tag := reflect.StructTag(u.Tag(i)).Get("json")
			if tag == "-" {
				continue
			}
			if tag != "" {
				parts := strings.Split(tag, ",")
				if parts[0] != "" {
					name = parts[0]
				}
				omit := false
				for _, o := range parts[1:] {
					switch o {
					case "omitempty":
						omit = true
					default:
						panic(unsupported("json struct tag option " + o))
					}
				}
				if omit && in.jsonEmpty(st[i]) {
					continue
				}
			}
			j.keys = append(j.keys, name)
			j.vals = append(j.vals, in.jvalOf(st[i], f.Type()))
		}
		return j
	case *types.Pointer:
		p := v.(Ptr)
		if p.p == nil {
			return &JVal{kind: 'n'}
		}
		return in.jvalOf(*p.p, u.Elem())
	case *types.Interface:
		iv := v.(Iface)
		if iv.t == nil {
			return &JVal{kind: 'n'}
		}
		return in.jvalOf(iv.v, iv.t)
	}
	panic(unsupported("json.Marshal of " + typeString(t)))
}

// jsonEmpty: encoding/json's notion of an empty value for omitempty (false, 0, nil pointer or
// interface, empty array / slice / map / string); symbolic scalars fork.
func (in *Interp) jsonEmpty(v Value) bool {
	switch x := v.(type) {
	case nil:
		return true
	case Str:
		return len(x.elems) == 0
	case Slice:
		return len(x.v) == 0
	case Array:
		return len(x) == 0
	case MapRef:
		return x.m == nil || len(x.m.ents) == 0
	case Ptr:
		return x.p == nil
	case Iface:
		return x.t == nil
	case *Term:
		var zero *Term
		switch {
		case x.IsBool():
			zero = in.tt.Not(x)
		case x.w == SortFP:
			zero = in.tt.FpCmp(OFpEq, x, in.tt.FPConst(0))
		default:
			zero = in.tt.Eq(x, in.tt.BV(x.w, 0))
		}
		if zero.IsConst() {
			return zero == in.tt.T
		}
		return in.path.Branch(zero)
	}
	return false
}

// parseRope turns JSON text (concrete, or blanks around one token) into a tree.
func (in *Interp) parseRope(s Str) *JVal {
	j, err := in.parseRopeErr(s)
	if err != "" {
		panic(marshalErr{err})
	}
	return j
}

func isBlank(e SElem) bool {
	if e.tok != nil || !e.b.IsConst() {
		return false
	}
	switch byte(e.b.val) {
	case ' ', '\t', '\n', '\r':
		return true
	}
	return false
}

func (in *Interp) parseRopeErr(s Str) (*JVal, string) {
	if c, ok := s.concrete(); ok {
		dec := json.NewDecoder(strings.NewReader(c))
		var x interface{}
		if err := json.Unmarshal([]byte(c), &x); err != nil {
			return nil, err.Error()
		}
		_ = dec
		return in.jvalOfNative(x), ""
	}
	es := s.elems
	for len(es) > 0 && isBlank(es[0]) {
		es = es[1:]
	}
	for len(es) > 0 && isBlank(es[len(es)-1]) {
		es = es[:len(es)-1]
	}
	if len(es) == 1 && es[0].tok != nil {
		if es[0].tok.yaml {
			panic(unsupported("JSON decode of YAML token"))
		}
		return es[0].tok.val, ""
	}
	panic(unsupported("decoding text that mixes bytes and tokens: " + s.String()))
}

func (in *Interp) jvalOfNative(x interface{}) *JVal {
	switch x := x.(type) {
	case nil:
		return &JVal{kind: 'n'}
	case bool:
		return &JVal{kind: 'b', b: in.tt.Bool(x)}
	case float64:
		return &JVal{kind: 'f', f: in.tt.FPConst(x)}
	case int:
		return &JVal{kind: 'f', f: in.tt.FPConst(float64(x))}
	case string:
		return &JVal{kind: 's', s: in.strConst(x)}
	case []interface{}:
		j := &JVal{kind: 'a', arr: make([]*JVal, len(x))}
		for i, e := range x {
			j.arr[i] = in.jvalOfNative(e)
		}
		return j
	case map[string]interface{}:
		ks := make([]string, 0, len(x))
		for k := range x {
			ks = append(ks, k)
		}
		sort.Strings(ks)
		j := &JVal{kind: 'o'}
		for _, k := range ks {
			j.keys = append(j.keys, k)
			j.vals = append(j.vals, in.jvalOfNative(x[k]))
		}
		return j
	}
	panic(fmt.Sprintf("jvalOfNative %T", x))
}

// ---------- tree -> value (Unmarshal) ----------

var (
	tEmptyIface = types.NewInterfaceType(nil, nil)
	tMapSI      = types.NewMap(types.Typ[types.String], tEmptyIface)
	tSliceI     = types.NewSlice(tEmptyIface)
)

func init() { tEmptyIface.Complete() }

// decodeInto mirrors encoding/json's decoding of tree j into a value of type t.
// cur is the current value (Unmarshal merges into existing maps / keeps fields).
func (in *Interp) decodeInto(j *JVal, t types.Type, cur Value, errp *string) Value {
	tt := in.tt
	typeErr := func(what string) {
		if *errp == "" {
			*errp = "json: cannot unmarshal " + what + " into Go value of type " + typeString(t)
		}
	}
	jname := map[byte]string{'n': "null", 'b': "bool", 'f': "number", 's': "string", 'a': "array", 'o': "object"}[j.kind]
	if _, isNamed := t.(*types.Named); isNamed {
		if in.hasMethod(types.NewPointer(t), "UnmarshalJSON") != nil {
			panic(unsupported("json.Unmarshal into type with UnmarshalJSON: " + typeString(t)))
		}
	}
	switch u := t.Underlying().(type) {
	case *types.Interface:
		if u.NumMethods() != 0 {
			if j.kind == 'n' {
				return Iface{}
			}
			typeErr(jname)
			return cur
		}
		switch j.kind {
		case 'n':
			return Iface{}
		case 'b':
			return Iface{t: types.Typ[types.Bool], v: j.b}
		case 'f':
			return Iface{t: types.Typ[types.Float64], v: j.f}
		case 's':
			return Iface{t: types.Typ[types.String], v: j.s}
		case 'a':
			out := make([]Value, len(j.arr))
			for i, e := range j.arr {
				out[i] = in.decodeInto(e, tEmptyIface, Iface{}, errp)
			}
			return Iface{t: tSliceI, v: Slice{v: out}}
		case 'o':
			m := &MapObj{}
			for i, k := range j.keys {
				m.ents = append(m.ents, &mapEnt{k: in.strConst(k), v: in.decodeInto(j.vals[i], tEmptyIface, Iface{}, errp)})
			}
			return Iface{t: tMapSI, v: MapRef{m: m}}
		}
	case *types.Basic:
		if j.kind == 'n' {
			return cur
		}
		switch {
		case u.Info()&types.IsBoolean != 0:
			if j.kind == 'b' {
				return j.b
			}
		case u.Info()&types.IsString != 0:
			if j.kind == 's' {
				return j.s
			}
		case u.Info()&types.IsFloat != 0:
			if j.kind == 'f' {
				return j.f
			}
		case u.Info()&types.IsInteger != 0:
			if j.kind == 'f' {
				if j.f.IsConst() {
					f := fpc(j.f)
					if f == math.Trunc(f) && math.Abs(f) < 1e15 {
						return tt.BV(intWidth(u), uint64(int64(f)))
					}
					typeErr("number " + strconv.FormatFloat(f, 'g', -1, 64))
					return cur
				}
				if i, ok := fpExactInt(j.f); ok {
					return tt.Extract(intWidth(u)-1, 0, i)
				}
				panic(unsupported("json.Unmarshal of symbolic number into integer"))
			}
		}
		typeErr(jname)
		return cur
	case *types.Slice:
		if j.kind == 'n' {
			return Slice{}
		}
		if j.kind != 'a' {
			typeErr(jname)
			return cur
		}
		out := make([]Value, len(j.arr))
		for i, e := range j.arr {
			out[i] = in.decodeInto(e, u.Elem(), in.zero(u.Elem()), errp)
		}
		return Slice{v: out}
	case *types.Map:
		if j.kind == 'n' {
			return MapRef{}
		}
		if j.kind != 'o' {
			typeErr(jname)
			return cur
		}
		m := &MapObj{}
		if cm, ok := cur.(MapRef); ok && cm.m != nil {
			m = cm.m
		}
		for i, k := range j.keys {
			in.mapSet(m, in.strConst(k), in.decodeInto(j.vals[i], u.Elem(), in.zero(u.Elem()), errp))
		}
		return MapRef{m: m}
	case *types.Struct:
		if j.kind == 'n' {
			return cur
		}
		if j.kind != 'o' {
			typeErr(jname)
			return cur
		}
		st := copyVal(cur).(Struct)
		for i, k := range j.keys {
			fi := -1
			// exact match first, then case-insensitive (encoding/json's rule)
			for pass := 0; pass < 2 && fi < 0; pass++ {
				for f := 0; f < u.NumFields(); f++ {
					fld := u.Field(f)
					if !fld.Exported() {
						continue
					}
					name := fld.Name()
					if tag := reflect.StructTag(u.Tag(f)).Get("json"); tag != "" && tag != "-" {
						if p := strings.Split(tag, ",")[0]; p != "" {
							name = p
						}
					}
					if pass == 0 && name == k || pass == 1 && strings.EqualFold(name, k) {
						fi = f
						break
					}
				}
			}
			if fi < 0 {
				continue
			}
			st[fi] = in.decodeInto(j.vals[i], u.Field(fi).Type(), st[fi], errp)
		}
		return st
	case *types.Pointer:
		if j.kind == 'n' {
			return Ptr{}
		}
		p, _ := cur.(Ptr)
		if p.p == nil {
			p.p = new(Value)
			*p.p = in.zero(u.Elem())
		}
		*p.p = in.decodeInto(j, u.Elem(), *p.p, errp)
		return p
	}
	panic(unsupported("json.Unmarshal into " + typeString(t)))
}

// ---------- rope equality ----------

func (in *Interp) jvalEq(a, b *JVal) *Term {
	tt := in.tt
	if a.kind != b.kind {
		return tt.F
	}
	switch a.kind {
	case 'n':
		return tt.T
	case 'b':
		return tt.Eq(a.b, b.b)
	case 'f':
		// texts are equal iff the values are the same float (incl. sign of zero)
		if ia, ok := fpExactInt(a.f); ok {
			if ib, ok := fpExactInt(b.f); ok {
				return tt.Eq(ia, ib)
			}
		}
		ba, oka := fpBits(tt, a.f)
		bb, okb := fpBits(tt, b.f)
		if oka && okb {
			return tt.Eq(ba, bb)
		}
		return tt.FpSame(a.f, b.f)
	case 's':
		return in.strEq(a.s, b.s)
	case 'a':
		if len(a.arr) != len(b.arr) {
			return tt.F
		}
		cs := make([]*Term, len(a.arr))
		for i := range a.arr {
			cs[i] = in.jvalEq(a.arr[i], b.arr[i])
		}
		return tt.And(cs...)
	case 'o':
		if len(a.keys) != len(b.keys) {
			return tt.F
		}
		cs := make([]*Term, len(a.keys))
		for i := range a.keys {
			if a.keys[i] != b.keys[i] {
				return tt.F
			}
			cs[i] = in.jvalEq(a.vals[i], b.vals[i])
		}
		return tt.And(cs...)
	}
	return tt.F
}

func (in *Interp) ropeEq(x, y Str) *Term {
	tt := in.tt
	xs, ys := x.elems, y.elems
	var cs []*Term
	for len(xs) > 0 || len(ys) > 0 {
		if len(xs) == 0 || len(ys) == 0 {
			return tt.F
		}
		ex, ey := xs[0], ys[0]
		switch {
		case ex.tok == nil && ey.tok == nil:
			cs = append(cs, tt.Eq(ex.b, ey.b))
			xs, ys = xs[1:], ys[1:]
		case ex.tok != nil && ey.tok != nil:
			if ex.tok.yaml != ey.tok.yaml {
				panic(unsupported("comparing JSON token with YAML token"))
			}
			cs = append(cs, in.jvalEq(ex.tok.val, ey.tok.val))
			xs, ys = xs[1:], ys[1:]
		default:
			// token on one side, bytes on the other: decode the bytes' first JSON value
			tokSide, byteSide := xs, ys
			if ex.tok == nil {
				tokSide, byteSide = ys, xs
			}
			if tokSide[0].tok.yaml {
				// a YAML token is the text yaml.Marshal emits for a value and extends to the end
				// of the text: the bytes equal it iff they are the canonical rendering of an
				// equal value
				if len(tokSide) != 1 {
					panic(unsupported("comparing YAML token followed by more text with bytes"))
				}
				var all []byte
				for _, e := range byteSide {
					if e.tok != nil || !e.b.IsConst() {
						panic(unsupported("comparing YAML token with symbolic bytes"))
					}
					all = append(all, byte(e.b.val))
				}
				var yv interface{}
				if err := yaml.Unmarshal(all, &yv); err != nil {
					return tt.F
				}
				canon, err := yaml.Marshal(yv)
				if err != nil || string(canon) != string(all) {
					return tt.F
				}
				cs = append(cs, in.jvalEq(tokSide[0].tok.val, jvalOfYamlNative(in, yv)))
				return tt.And(cs...)
			}
			var run []byte
			for _, e := range byteSide {
				if e.tok != nil || !e.b.IsConst() {
					break
				}
				run = append(run, byte(e.b.val))
			}
			dec := json.NewDecoder(bytes.NewReader(run))
			var v interface{}
			if err := dec.Decode(&v); err != nil {
				return tt.F
			}
			off := int(dec.InputOffset())
			// the decoder skips leading blanks; a token has none
			if len(run) > 0 && (run[0] == ' ' || run[0] == '\n' || run[0] == '\t' || run[0] == '\r') {
				return tt.F
			}
			cs = append(cs, in.jvalEq(tokSide[0].tok.val, in.jvalOfNative(v)))
			if ex.tok != nil {
				xs, ys = xs[1:], ys[off:]
			} else {
				xs, ys = xs[off:], ys[1:]
			}
		}
	}
	return tt.And(cs...)
}

// ---------- models ----------

func (e *Engine) registerCodecModels() {
	m := e.models
	m["encoding/json.Marshal"] = func(in *Interp, fn *ssa.Function, a []Value) (res Value) {
		defer func() {
			if r := recover(); r != nil {
				if me, ok := r.(marshalErr); ok {
					res = Tuple{Slice{}, in.newError(in.strConst("json: " + me.msg))}
					return
				}
				panic(r)
			}
		}()
		v := a[0].(Iface)
		var j *JVal
		if v.t == nil {
			j = &JVal{kind: 'n'}
		} else {
			j = in.jvalOf(v.v, v.t)
		}
		s := in.strOfJ(j)
		return Tuple{bytesOfElems(s.elems), Iface{}}
	}
	m["encoding/json.Unmarshal"] = func(in *Interp, fn *ssa.Function, a []Value) Value {
		data := Str{elems: elemsOfBytes(a[0].(Slice))}
		dst := a[1].(Iface)
		j, perr := in.parseRopeErr(data)
		if perr != "" {
			return in.newError(in.strConst(perr))
		}
		pt, ok := dst.t.Underlying().(*types.Pointer)
		if !ok || dst.v.(Ptr).p == nil {
			return in.newError(in.strConst("json: Unmarshal(non-pointer)"))
		}
		p := dst.v.(Ptr)
		errs := ""
		*p.p = in.decodeInto(j, pt.Elem(), *p.p, &errs)
		if errs != "" {
			return in.newError(in.strConst(errs))
		}
		return Iface{}
	}
	e.registerYamlModels()
}

// renderObs renders an observed value as text under a model.
func (in *Interp) renderObs(v Value, m Model) string {
	switch v := v.(type) {
	case Iface:
		if v.t == nil {
			return "<nil>"
		}
		return in.renderObs(v.v, m)
	case *Term:
		x, ok := v.Eval(m)
		if !ok {
			return "<?>"
		}
		switch v.w {
		case SortBool:
			return strconv.FormatBool(x == 1)
		case SortFP:
			return fmt.Sprint(math.Float64frombits(x))
		default:
			sh := uint(64 - v.w)
			return strconv.FormatInt(int64(x<<sh)>>sh, 10)
		}
	case Str:
		b := make([]byte, 0, len(v.elems))
		for _, e := range v.elems {
			if e.tok != nil {
				b = append(b, in.renderTok(e.tok, m)...)
				continue
			}
			x, _ := e.b.Eval(m)
			b = append(b, byte(x))
		}
		return string(b)
	}
	return fmt.Sprintf("<%T>", v)
}
