package main

// Structural model of the text codecs (encoding/json, yaml.v2).

import (
	"fmt"
	"math"
	"strconv"
)

// Tok is an opaque piece of text: the encoding of a JSON value tree.
type Tok struct {
	val    *JVal
	yaml   bool
	lenVar *Term
}

type JVal struct {
	kind  byte // 'n' null, 'b' bool, 'f' number, 's' string, 'a' array, 'o' object
	b     *Term
	f     *Term
	s     Str
	arr   []*JVal
	keys  []string
	vals  []*JVal
}

func (in *Interp) tokLen(t *Tok) *Term {
	if t.lenVar == nil {
		v := in.path.newVar("tl", 64)
		if in.path.model != nil {
			in.path.model[v.name] = 1
		}
		in.path.addPC(in.tt.And(in.tt.Ule(in.tt.BV(64, 1), v), in.tt.Ule(v, in.tt.BV(64, 1<<20))))
		t.lenVar = v
	}
	return t.lenVar
}

func (in *Interp) ropeEq(x, y Str) *Term {
	panic(unsupported("rope equality"))
}

func (e *Engine) registerCodecModels() {}

// renderObs renders an observed value as text under a model.
func (in *Interp) renderObs(v Value, m Model) string {
	switch v := v.(type) {
	case Iface:
		if v.t == nil {
			return "<nil>"
		}
		return in.renderObs(v.v, m)
	case *Term:
		x, ok := v.Eval(m)
		if !ok {
			return "<?>"
		}
		switch v.w {
		case SortBool:
			return strconv.FormatBool(x == 1)
		case SortFP:
			return strconv.FormatFloat(math.Float64frombits(x), 'g', -1, 64)
		default:
			sh := uint(64 - v.w)
			return strconv.FormatInt(int64(x<<sh)>>sh, 10)
		}
	case Str:
		b := make([]byte, 0, len(v.elems))
		for _, e := range v.elems {
			if e.tok != nil {
				b = append(b, in.renderTok(e.tok, m)...)
				continue
			}
			x, _ := e.b.Eval(m)
			b = append(b, byte(x))
		}
		return string(b)
	}
	return fmt.Sprintf("<%T>", v)
}

func (in *Interp) renderTok(t *Tok, m Model) string {
	return "<tok>"
}
