package main

// Path exploration: replay-based DFS. A path is identified by its event log
// (results of every solver-decided or enumerated decision, in order). To explore
// an alternative the harness is re-executed from the start following the log
// prefix; no state is ever copied.

import (
	"fmt"
	"hash/fnv"
	"math"
	"os"
	"sort"
	"strconv"
	"strings"
	"sync"
)

type Event struct {
	Kind   byte // 'b' branch, 'c' choice, 'a' assume, 's' assert
	Val    int
	N      int  // choice: number of alternatives
	Alt    bool // branch: other side feasible (or unknown) and not yet explored
	Forced bool // branch: other side infeasible
	model  Model
}

type Input struct {
	Kind string // choice,int,bool,f64,byte
	t    *Term
	conc int
}

type Violation struct {
	Kind    string // assert, panic
	Msg     string
	Inputs  []uint64
	Kinds   []string
	Observe []ObsRec
	Trace   []string
}

type ObsRec struct {
	Label string
	Text  string
}

type pathEnd struct {
	status string // ok, assumed, violation, unsupported, budget, infeasible
	msg    string
}

type hashApp struct {
	pre  []*Term
	h    *Term
	site string
}

type Path struct {
	w      *Worker
	log    []Event
	pos    int
	pc     []*Term
	lits   map[int]bool
	model  Model
	vars   []*Term
	inputs []Input
	nvar   int
	apps   []hashApp
	steps  int
	// results
	covers     map[string]bool
	observes   []obsVal
	oblig      int // assertions evaluated
	dischargd  int
	symForks   int // events decided by the solver on this path (new or replayed, non-forced)
	known      map[string]bool
	flags      map[string]bool
	mapOrder   bool
	mapReverse bool // every map range runs in reverse insertion order (no forking)
	ranges     map[string][2]int64
	finite     map[int]bool // term ids of BV64 vars known to be finite floats
	yamlNoWrap bool         // yaml.v2's process-global FutureLineWrap switch, per path
	merge      *mergeCtx
	cli        *cliState
	violTerm   *Term            // the negated assertion that was found satisfiable
	preEqOf    map[[2]int]*Term // (hash code, hash code) -> equality of their preimages (the iff axiom's right side)
	rep        map[*Term]*Term  // equality substitution: variable -> representative (variable or constant)
	canonMemo  map[*Term]*Term
}

// mergeCtx: a pure callee is run once per outcome of its single symbolic branch and
// the results are joined with ite (no fork).
type mergeCtx struct {
	force bool
	cond  *Term
}

type mergeAbort struct{}

type obsVal struct {
	label string
	v     Value
}

func (w *Worker) newPath(log []Event) *Path {
	return &Path{w: w, log: log, lits: map[int]bool{}, covers: map[string]bool{}, known: w.known, flags: map[string]bool{}, ranges: map[string][2]int64{}, finite: map[int]bool{}}
}

func (p *Path) tt() *TermTable { return p.w.tt }

// ---------- solver plumbing ----------

func (w *Worker) sync(pc []*Term) {
	l := 0
	for l < len(pc) && l < len(w.solverPC) && pc[l] == w.solverPC[l] {
		l++
	}
	if len(w.solverPC) > l {
		w.solver.Pop(len(w.solverPC) - l)
		w.solverPC = w.solverPC[:l]
	}
	for _, t := range pc[l:] {
		w.solver.Push()
		w.solver.Assert(t)
		w.solverPC = append(w.solverPC, t)
	}
}

// query: is pc ∧ extra satisfiable? returns "sat" (with model), "unsat" or "unknown".
func (p *Path) query(extra *Term) (string, Model) {
	w := p.w
	w.sync(p.pc)
	assuming := extra != nil && useAssuming
	var res string
	if assuming {
		res = w.solver.CheckAssuming(extra)
	} else {
		w.solver.Push()
		if extra != nil {
			w.solver.Assert(extra)
		}
		res = w.solver.Check()
	}
	var m Model
	if res == "sat" {
		var err error
		m, err = w.solver.GetModel(p.vars)
		if err != nil {
			res = "unknown"
			m = nil
			w.notes["get-model: "+err.Error()]++
		}
	}
	if assuming {
		w.solver.depth++ // balanced by the Pop below
		w.solver.send("(push 1)")
	}
	if debugModel && m != nil {
		for i, c := range p.pc {
			if v, ok := c.Eval(m); !ok || v != 1 {
				fmt.Fprintf(os.Stderr, "SOLVER MODEL violates pc[%d]: %s ok=%v model=%v\n", i, c.SMT(), ok, m)
				break
			}
		}
		if extra != nil {
			if v, ok := extra.Eval(m); !ok || v != 1 {
				fmt.Fprintf(os.Stderr, "SOLVER MODEL violates extra: %s ok=%v\n", extra.SMT(), ok)
			}
		}
	}
	w.solver.Pop(1)
	w.queries++
	if res == "unknown" && w.solver2 != nil {
		// second opinion
		r2, m2 := w.querySecond(p, extra)
		if r2 != "unknown" {
			return r2, m2
		}
	}
	if res == "unknown" {
		w.unknowns++
	}
	return res, m
}

func (w *Worker) querySecond(p *Path, extra *Term) (string, Model) {
	s := w.solver2
	s.send("(push 1)")
	for _, t := range p.pc {
		s.Assert(t)
	}
	if extra != nil {
		s.Assert(extra)
	}
	res := s.Check()
	var m Model
	if res == "sat" {
		var err error
		m, err = s.GetModel(p.vars)
		if err != nil {
			res = "unknown"
		}
	}
	s.send("(pop 1)")
	return res, m
}

func (p *Path) ensureModel() {
	if p.model != nil {
		return
	}
	res, m := p.query(nil)
	switch res {
	case "sat":
		p.model = m
	case "unsat":
		panic(pathEnd{"infeasible", "path condition unsatisfiable"})
	default:
		panic(pathEnd{"unsupported", "solver unknown on path condition"})
	}
}

func (p *Path) evalBool(c *Term) (bool, bool) {
	if p.model == nil {
		return false, false
	}
	v, ok := c.Eval(p.model)
	return v == 1, ok
}

func (p *Path) newVar(prefix string, w int) *Term {
	p.nvar++
	t := p.tt().Var(fmt.Sprintf("%s%d_%d", prefix, sortTag(w), p.nvar), w)
	p.vars = append(p.vars, t)
	if p.model != nil {
		if _, ok := p.model[t.name]; !ok {
			p.model[t.name] = 0
		}
	}
	return t
}

func sortTag(w int) int {
	if w == SortBool {
		return 1
	}
	return w
}

// addPC appends an assumption/axiom that is known (or assumed) consistent.
func (p *Path) addPC(t *Term) {
	if t.IsConst() {
		if t.val == 0 {
			panic(pathEnd{"infeasible", "false axiom"})
		}
		return
	}
	p.pc = append(p.pc, t)
	p.noteLit(t, true)
	if p.model != nil {
		if v, ok := t.Eval(p.model); !ok || v != 1 {
			p.model = nil
		}
	}
}

func (p *Path) noteLit(t *Term, val bool) {
	if t.op == ONot {
		p.lits[t.args[0].id] = !val
		return
	}
	p.lits[t.id] = val
	if val && t.op == OAnd {
		for _, a := range t.args {
			p.noteLit(a, true)
		}
	}
	if !val && t.op == OOr {
		for _, a := range t.args {
			p.noteLit(a, false)
		}
	}
}

func (p *Path) lookupLit(c *Term) (bool, bool) {
	if c.op == ONot {
		v, ok := p.lits[c.args[0].id]
		return !v, ok
	}
	v, ok := p.lits[c.id]
	if ok {
		return v, true
	}
	if c.op == OEq && p.preEqOf != nil && c.args[0].w == 64 {
		// two hash codes are equal exactly when their preimages are (iff axiom on the path)
		x, y := c.args[0].id, c.args[1].id
		if x > y {
			x, y = y, x
		}
		if pe, ok := p.preEqOf[[2]int{x, y}]; ok {
			pe = p.canon(pe)
			if pe.IsConst() {
				return pe.val == 1, true
			}
			if pe != c {
				if v, ok := p.lookupLit(pe); ok {
					return v, true
				}
			}
		}
	}
	if c.op == OUlt || c.op == OSlt {
		// strict order: antisymmetry and trichotomy with decided literals
		a, b := c.args[0], c.args[1]
		tt := p.tt()
		rev := tt.cmp(c.op, b, a)
		eq := tt.Eq(a, b)
		rv, rok := p.lits[rev.id]
		ev, eok := p.lits[eq.id]
		if eq.IsConst() {
			ev, eok = eq.val == 1, true
		}
		if rok && rv {
			return false, true
		}
		if eok && ev {
			return false, true
		}
		if rok && !rv && eok && !ev {
			return true, true
		}
	}
	// conjunction of known-true literals / disjunction with a known-true member
	if c.op == OAnd {
		all := true
		for _, a := range c.args {
			v, ok := p.lookupLit(a)
			if ok && !v {
				return false, true
			}
			if !ok {
				all = false
			}
		}
		if all {
			return true, true
		}
	}
	if c.op == OOr {
		all := true
		for _, a := range c.args {
			v, ok := p.lookupLit(a)
			if ok && v {
				return true, true
			}
			if !ok {
				all = false
			}
		}
		if all {
			return false, true
		}
	}
	return false, false
}

func (p *Path) nextEvent(kind byte) *Event {
	if p.pos < len(p.log) {
		ev := &p.log[p.pos]
		if ev.Kind != kind {
			panic(fmt.Sprintf("engine nondeterminism: event %d kind %c, replay expects %c", p.pos, kind, ev.Kind))
		}
		p.pos++
		if p.pos == len(p.log) && ev.model != nil {
			p.model = ev.model
			ev.model = nil
			// variables created so far but unknown to that model default to 0
		}
		return ev
	}
	return nil
}

// find returns the representative of a variable under the equalities decided on the path.
func (p *Path) find(v *Term) *Term {
	for {
		r, ok := p.rep[v]
		if !ok {
			return v
		}
		v = r
	}
}

// canon rewrites t over representatives (sound: the equalities are part of the path condition).
func (p *Path) canon(t *Term) *Term {
	if !useCanon || len(p.rep) == 0 {
		return t
	}
	if r, ok := p.canonMemo[t]; ok {
		return r
	}
	var r *Term
	switch t.op {
	case OConst:
		r = t
	case OVar:
		r = p.find(t)
	default:
		args := make([]*Term, len(t.args))
		changed := false
		for i, a := range t.args {
			args[i] = p.canon(a)
			if args[i] != a {
				changed = true
			}
		}
		if changed {
			r = p.tt().Rebuild(t, args)
		} else {
			r = t
		}
	}
	p.canonMemo[t] = r
	return r
}

// union records v = w for a variable v (w a variable or constant of the same width).
func (p *Path) union(a, b *Term) {
	if !useCanon {
		return
	}
	a, b = p.canon(a), p.canon(b)
	if a == b {
		return
	}
	if a.op != OVar {
		a, b = b, a
	}
	if a.op != OVar || (b.op != OVar && b.op != OConst) || a.w != b.w {
		return
	}
	// the representative must not depend on term ids (they differ between workers and a
	// donated prefix is replayed by another worker): the later-created variable points to
	// the earlier one
	if b.op == OVar && varSeq(a.name) < varSeq(b.name) {
		a, b = b, a
	}
	if p.rep == nil {
		p.rep = map[*Term]*Term{}
	}
	p.rep[a] = b
	p.canonMemo = map[*Term]*Term{}
}

// varSeq: the creation number at the end of a variable name ("f64_12" -> 12).
func varSeq(name string) int {
	n := 0
	i := strings.LastIndexByte(name, '_')
	for _, ch := range name[i+1:] {
		n = n*10 + int(ch-'0')
	}
	return n
}

// Branch decides a symbolic condition for this path.
func (p *Path) Branch(c *Term) bool {
	c = p.canon(c)
	if c.IsConst() {
		return c.val == 1
	}
	if v, ok := p.lookupLit(c); ok {
		return v
	}
	if p.merge != nil {
		if p.merge.cond != nil && p.merge.cond != c {
			panic(mergeAbort{})
		}
		p.merge.cond = c
		return p.merge.force
	}
	if ev := p.nextEvent('b'); ev != nil {
		side := ev.Val == 1
		p.commit(c, side, ev.Forced)
		if !ev.Forced {
			p.symForks++
		}
		return side
	}
	// new decision
	side, ok := p.evalBool(c)
	if !ok {
		p.ensureModel()
		side, ok = p.evalBool(c)
		if !ok {
			panic(fmt.Sprintf("cannot evaluate %s under model", c.SMT()))
		}
	}
	lit := c
	if side {
		lit = p.tt().Not(c)
	}
	ev := Event{Kind: 'b'}
	if side {
		ev.Val = 1
	}
	res, m := p.query(lit)
	if qstats {
		p.w.notes["q:"+classify(c)+":"+res]++
	}
	switch res {
	case "sat":
		ev.Alt = true
		ev.model = m
		p.symForks++
	case "unsat":
		ev.Forced = true
	default:
		ev.Alt = true
		p.symForks++
		p.flags["solver-unknown"] = true
	}
	p.log = append(p.log, ev)
	p.pos = len(p.log)
	p.commit(c, side, ev.Forced)
	return side
}

func (p *Path) commit(c *Term, side bool, forced bool) {
	lit := c
	if !side {
		lit = p.tt().Not(c)
	}
	p.noteLit(lit, true)
	if side && c.op == OEq && c.args[0].w > 0 {
		defer p.union(c.args[0], c.args[1])
	}
	if !forced {
		p.pc = append(p.pc, lit)
		if p.model != nil {
			if v, ok := lit.Eval(p.model); !ok || v != 1 {
				p.model = nil
			}
		}
	}
}

// Choice enumerates 0..n-1.
func (p *Path) Choice(n int) int {
	if n <= 0 {
		panic(pathEnd{"assumed", "empty choice"})
	}
	if n == 1 {
		return 0
	}
	if ev := p.nextEvent('c'); ev != nil {
		return ev.Val
	}
	p.log = append(p.log, Event{Kind: 'c', Val: 0, N: n})
	p.pos = len(p.log)
	return 0
}

// Assume restricts the path.
func (p *Path) Assume(c *Term) {
	c = p.canon(c)
	if c.IsConst() {
		if c.val == 0 {
			panic(pathEnd{"assumed", ""})
		}
		return
	}
	if v, ok := p.lookupLit(c); ok {
		if !v {
			panic(pathEnd{"assumed", ""})
		}
		return
	}
	if ev := p.nextEvent('a'); ev != nil {
		if ev.Val == 0 {
			panic(pathEnd{"assumed", ""})
		}
		p.addPC(c)
		return
	}
	feasible := false
	if v, ok := p.evalBool(c); ok && v {
		feasible = true
	} else {
		res, m := p.query(c)
		switch res {
		case "sat":
			feasible = true
			p.model = m
		case "unsat":
		default:
			feasible = true
			p.model = nil
			p.flags["solver-unknown"] = true
		}
	}
	ev := Event{Kind: 'a'}
	if feasible {
		ev.Val = 1
	}
	p.log = append(p.log, ev)
	p.pos = len(p.log)
	if !feasible {
		panic(pathEnd{"assumed", ""})
	}
	p.addPC(c)
}

// Assert checks a property obligation on this path.
func (p *Path) Assert(c *Term, msg string) {
	p.oblig++
	c = p.canon(c)
	// an assertion that is violated whatever the values (constant false, or the negation of a
	// literal already on the path) has no violation term of its own: forget the one left by an
	// earlier, discharged assertion (realise() would assert it and find the path unrealisable)
	p.violTerm = nil
	if c.IsConst() {
		if c.val == 1 {
			p.dischargd++
			return
		}
		p.ensureModel()
		p.violation("assert", msg)
	}
	if v, ok := p.lookupLit(c); ok {
		if v {
			p.dischargd++
			return
		}
		p.ensureModel()
		p.violation("assert", msg)
	}
	if ev := p.nextEvent('s'); ev != nil {
		if ev.Val == 1 {
			p.dischargd++
			p.noteLit(c, true)
			return
		}
		// a replayed violated assertion: should not happen
		p.ensureModel()
		p.violation("assert", msg)
	}
	neg := p.tt().Not(c)
	p.violTerm = neg
	res, m := p.query(neg)
	switch res {
	case "unsat":
		p.log = append(p.log, Event{Kind: 's', Val: 1})
		p.pos = len(p.log)
		p.dischargd++
		p.noteLit(c, true)
	case "sat":
		p.log = append(p.log, Event{Kind: 's', Val: 0})
		p.pos = len(p.log)
		p.model = m
		p.violation("assert", msg)
	default:
		p.log = append(p.log, Event{Kind: 's', Val: 1})
		p.pos = len(p.log)
		p.flags["solver-unknown"] = true
		p.w.inconclusive["solver unknown on assertion: "+msg]++
		p.addPC(c)
	}
}

func (p *Path) violation(kind, msg string) {
	panic(pathEnd{"violation", kind + ": " + msg})
}

// concretize forks over the values of an integer term (small domains only).
var debugModel = os.Getenv("GOSYM_DEBUG") != ""
var useAssuming = os.Getenv("GOSYM_ASSUMING") != ""
var qstats = os.Getenv("GOSYM_QSTATS") != ""
var useCanon = os.Getenv("GOSYM_NOCANON") == ""

func classify(c *Term) string {
	neg := ""
	if c.op == ONot {
		neg = "!"
		c = c.args[0]
	}
	k := func(t *Term) string {
		switch {
		case t.op == OVar && strings.HasPrefix(t.name, "h64"):
			return "h"
		case t.op == OVar:
			return "v"
		case t.op == OConst:
			return "c"
		case t.op == OConcat:
			return "cat"
		case t.op == OExtract:
			return "ext"
		}
		return fmt.Sprintf("op%d", t.op)
	}
	s := fmt.Sprintf("%sop%d", neg, c.op)
	for _, a := range c.args {
		s += "," + k(a)
	}
	return s
}

func (p *Path) checkModel(where string) {
	if !debugModel || p.model == nil {
		return
	}
	for i, c := range p.pc {
		if v, ok := c.Eval(p.model); !ok || v != 1 {
			var sb strings.Builder
			for j, x := range p.pc {
				fmt.Fprintf(&sb, "\n   pc[%d] %s", j, x.SMT())
			}
			fmt.Fprintf(&sb, "\n   model %v\n   log:", p.model)
			for _, e := range p.log {
				fmt.Fprintf(&sb, " %c%d/f%v/a%v", e.Kind, e.Val, e.Forced, e.Alt)
			}
			fmt.Fprintf(os.Stderr, "MODEL BUG at %s pc[%d]: pos=%d len(log)=%d %s\n", where, i, p.pos, len(p.log), sb.String())
			panic(fmt.Sprintf("model violates pc[%d] at %s: %s (ok=%v)", i, where, c.SMT(), ok))
		}
	}
}

func (p *Path) concretize(t *Term, what string) int64 {
	if t.IsConst() {
		return t.SVal()
	}
	for n := 0; n < 64; n++ {
		// the candidate value comes from the model: it is logged so that a replay builds the same terms
		var v uint64
		if ev := p.nextEvent('v'); ev != nil {
			v = uint64(ev.Val)
		} else {
			p.ensureModel()
			p.checkModel("concretize")
			var ok bool
			v, ok = t.Eval(p.model)
			if !ok {
				panic("concretize: cannot evaluate")
			}
			p.log = append(p.log, Event{Kind: 'v', Val: int(v)})
			p.pos = len(p.log)
		}
		c := p.tt().BV(t.w, v)
		if p.Branch(p.tt().Eq(t, c)) {
			return c.SVal()
		}
	}
	panic(pathEnd{"unsupported", "concretize: domain too large for " + what})
}

// ---------- hash idealisation ----------

func fnv64a(b []byte) uint64 {
	h := fnv.New64a()
	h.Write(b)
	return h.Sum64()
}

func (p *Path) preEq(a, b []*Term) *Term {
	tt := p.tt()
	if len(a) != len(b) {
		return tt.F
	}
	var cs []*Term
	i := 0
	for i < len(a) {
		if i+8 <= len(a) {
			wa, oka := packLE(tt, a[i:i+8])
			wb, okb := packLE(tt, b[i:i+8])
			if oka && okb {
				if r, ok := p.hashWordEq(wa, wb); ok {
					cs = append(cs, r)
				} else {
					cs = append(cs, tt.Eq(wa, wb))
				}
				i += 8
				continue
			}
		}
		cs = append(cs, tt.Eq(a[i], b[i]))
		i++
	}
	return tt.And(cs...)
}

// packLE packs 8 byte terms (little endian) into a word when that yields a simple term.
func packLE(tt *TermTable, bs []*Term) (*Term, bool) {
	parts := make([]*Term, 8)
	for i := 0; i < 8; i++ {
		parts[7-i] = bs[i]
	}
	t := tt.Concat(parts...)
	if t.op == OConcat {
		return nil, false
	}
	return t, true
}

// unprefixedSite: hashing sites of jd that hash raw content without a type prefix.
func unprefixedSite(site string) bool {
	for _, s := range []string{"jsonString.hashCode", "jsonNumber.hashCode", "jsonMultiset.hashCode", "hashCodes.combine", "jsonObject.hashCode#key"} {
		if strings.HasSuffix(site, s) {
			return true
		}
	}
	return false
}

// The listed hash-alias finding is identified by the *shapes* at which preimages of different
// hashing sites coincide on the unchanged tree: (site, site, preimage length class). Only
// those shapes are assumed away; a new coincidence (another site pair or length) stays under
// check. aliasShapes == nil: no shape list given (every cross-site coincidence that involves an
// un-prefixed site is assumed away, the behaviour the list was recorded with).
var (
	aliasShapes   map[string]bool
	recordShapes  map[string]bool
	recordShapeMu sync.Mutex
)

func shapeKey(s1, s2 string, n int) string {
	if s2 < s1 {
		s1, s2 = s2, s1
	}
	c := strconv.Itoa(n)
	if n >= 16 {
		c = "big"
		if n%8 == 0 {
			c = "8n"
		}
	}
	return s1 + " " + s2 + " " + c
}

// aliasExcluded: is the coincidence of preimages of these two sites part of the listed finding?
func aliasExcluded(s1, s2 string, n int) bool {
	k := shapeKey(s1, s2, n)
	if recordShapes != nil {
		recordShapeMu.Lock()
		recordShapes[k] = true
		recordShapeMu.Unlock()
	}
	return aliasShapes == nil || aliasShapes[k]
}

func isHashVar(t *Term) bool { return t.op == OVar && strings.HasPrefix(t.name, "h64_") }

// hashApply returns the idealised FNV-1a code of the byte sequence.
func (p *Path) hashApply(pre []*Term, site string) *Term {
	tt := p.tt()
	conc := true
	for _, b := range pre {
		if !b.IsConst() {
			conc = false
			break
		}
	}
	var h *Term
	if conc {
		bs := make([]byte, len(pre))
		for i, b := range pre {
			bs[i] = byte(b.val)
		}
		h = tt.BV(64, fnv64a(bs))
		for _, a := range p.apps {
			if a.h == h {
				if p.known["hash.alias"] && site != a.site && (unprefixedSite(site) || unprefixedSite(a.site)) && aliasExcluded(site, a.site, len(pre)) {
					p.flags["excluded:hash.alias"] = true
					panic(pathEnd{"assumed", "hash.alias"})
				}
				return h
			}
		}
	} else {
		for _, a := range p.apps {
			if len(a.pre) == len(pre) {
				same := true
				for i := range pre {
					if a.pre[i] != pre[i] {
						same = false
						break
					}
				}
				if same {
					return a.h
				}
			}
		}
		p.nvar++
		h = tt.Var(fmt.Sprintf("h64_%d", p.nvar), 64)
		p.vars = append(p.vars, h)
	}
	var axioms []*Term
	var modelVal uint64
	haveModelVal := false
	for _, a := range p.apps {
		if conc && a.h.IsConst() {
			continue
		}
		pe := p.preEq(pre, a.pre)
		if useCanon {
			if p.preEqOf == nil {
				p.preEqOf = map[[2]int]*Term{}
			}
			x, y := h.id, a.h.id
			if x > y {
				x, y = y, x
			}
			p.preEqOf[[2]int{x, y}] = pe
		}
		if p.known["hash.alias"] && site != a.site && (unprefixedSite(site) || unprefixedSite(a.site)) && !(pe.IsConst() && pe.val == 0) && aliasExcluded(site, a.site, len(pre)) {
			// listed finding: preimages of hashing sites without a type prefix can coincide with
			// preimages of other sites; that region is assumed away, the codes are then distinct
			p.flags["excluded:hash.alias"] = true
			if pe.IsConst() && pe.val == 1 {
				panic(pathEnd{"assumed", "hash.alias"})
			}
			axioms = append(axioms, tt.Not(pe))
			pe = tt.F
		}
		ax := tt.Eq(tt.Eq(h, a.h), pe)
		if ax.w == SortBool && !ax.IsConst() {
			axioms = append(axioms, ax)
		} else if ax.IsConst() && ax.val == 0 {
			panic(pathEnd{"infeasible", "hash axiom false"})
		}
		if !conc && p.model != nil && !haveModelVal {
			if v, ok := pe.Eval(p.model); ok && v == 1 {
				if hv, ok := a.h.Eval(p.model); ok {
					modelVal = hv
					haveModelVal = true
				}
			}
		}
	}
	if !conc && p.model != nil {
		if !haveModelVal {
			// a value distinct from everything in the model
			modelVal = 0x9E3779B97F4A7C15 * uint64(p.nvar+1)
			used := map[uint64]bool{}
			for _, v := range p.model {
				used[v] = true
			}
			for _, a := range p.apps {
				if a.h.IsConst() {
					used[a.h.val] = true
				}
			}
			for used[modelVal] {
				modelVal += 0x632BE59BD9B4E019
			}
		}
		p.model[h.name] = modelVal
	}
	p.apps = append(p.apps, hashApp{pre: pre, h: h, site: site})
	if len(axioms) > 0 {
		p.addPC(tt.And(axioms...))
	}
	return h
}

// hashWordEq: equality between two 64-bit words one of which is an idealised hash
// code and the other a constant that is not the FNV code of any preimage seen on
// this path (a literal such as jsonBool's codes): idealised as "no collision".
func (p *Path) hashWordEq(x, y *Term) (*Term, bool) {
	if x.IsConst() {
		x, y = y, x
	}
	if x.op == OIte && y.IsConst() {
		a, oka := p.hashWordEq(x.args[1], y)
		b, okb := p.hashWordEq(x.args[2], y)
		if oka || okb {
			if !oka {
				a = p.tt().Eq(x.args[1], y)
			}
			if !okb {
				b = p.tt().Eq(x.args[2], y)
			}
			return p.tt().Ite(x.args[0], a, b), true
		}
		return nil, false
	}
	if isHashVar(x) && y.IsConst() {
		for _, a := range p.apps {
			if a.h == y {
				return nil, false
			}
		}
		p.flags["hash-vs-literal"] = true
		// tell the solver too (the comparison is folded here, but orderings are not)
		ne := p.tt().Not(p.tt().Eq(x, y))
		if v, ok := p.lits[ne.args[0].id]; !ok || v {
			p.addPC(ne)
		}
		return p.tt().F, true
	}
	return nil, false
}

// ---------- realisation of a counterexample with the real FNV-1a ----------

// realHashes replaces the model values of the idealised hash codes by the real FNV-1a
// codes of their preimages (computed in creation order) and reports whether the path
// condition and the violated assertion still hold.
func (p *Path) realHashes(m Model) (Model, bool) {
	m2 := Model{}
	for k, v := range m {
		m2[k] = v
	}
	for _, a := range p.apps {
		if a.h.IsConst() {
			continue
		}
		bs := make([]byte, len(a.pre))
		for i, t := range a.pre {
			v, ok := t.Eval(m2)
			if !ok {
				return nil, false
			}
			bs[i] = byte(v)
		}
		m2[a.h.name] = fnv64a(bs)
	}
	for _, c := range p.pc {
		if v, ok := c.Eval(m2); !ok || v != 1 {
			return m2, false
		}
	}
	if p.violTerm != nil {
		if v, ok := p.violTerm.Eval(m2); !ok || v != 1 {
			return m2, false
		}
	}
	return m2, true
}

// realise looks for a model of the violation in which every hash code is the real
// FNV-1a code: hash applications are fixed one by one (leaves of the preimage pinned,
// code set to the real value) and the solver re-solves the rest.
func (p *Path) realise() bool {
	if len(p.apps) == 0 {
		return true
	}
	p.ensureModel()
	if m2, ok := p.realHashes(p.model); ok {
		p.model = m2
		return true
	}
	w := p.w
	tt := p.tt()
	w.sync(p.pc)
	w.solver.Push()
	depth := 1
	defer func() { w.solver.Pop(depth) }()
	if p.violTerm != nil {
		w.solver.Assert(p.violTerm)
	}
	if os.Getenv("GOSYM_DEBUG_REAL") != "" {
		r := w.solver.Check()
		_, okm := p.realHashes(p.model)
		v, okv := p.violTerm.Eval(p.model)
		fmt.Fprintf(os.Stderr, "realise: start pc+viol=%s realHashes=%v viol under model=%v/%v npc=%d\n", r, okm, v, okv, len(p.pc))
	}
	m := p.model
	pinned := map[string]bool{}
	for _, a := range p.apps {
		if a.h.IsConst() || pinned[a.h.name] {
			continue
		}
		vs := map[*Term]bool{}
		for _, t := range a.pre {
			t.Vars(vs)
		}
		var fresh []*Term // leaves of this preimage that are not pinned yet
		for v := range vs {
			if !pinned[v.name] {
				fresh = append(fresh, v)
			}
		}
		sort.Slice(fresh, func(i, j int) bool { return fresh[i].name < fresh[j].name })
		// Pin the fresh leaves to the model's values and the code to the real FNV-1a code. The
		// real code may contradict an order (or equality) the path needs; then other values
		// are tried for the fresh leaves (an order between two codes holds for about every
		// second choice), up to a fixed number of attempts.
		ok := false
		for try := 0; try < 32; try++ {
			w.solver.Push()
			depth++
			var block []*Term
			for _, v := range fresh {
				val, has := v.Eval(m)
				if !has {
					return false
				}
				if v.w == SortBool {
					if val == 1 {
						w.solver.Assert(v)
						block = append(block, tt.Not(v))
					} else {
						w.solver.Assert(tt.Not(v))
						block = append(block, v)
					}
				} else {
					c := tt.Eq(v, tt.BV(v.w, val))
					w.solver.Assert(c)
					block = append(block, tt.Not(c))
				}
			}
			bs := make([]byte, len(a.pre))
			for i, t := range a.pre {
				v, has := t.Eval(m)
				if !has {
					return false
				}
				bs[i] = byte(v)
			}
			w.solver.Assert(tt.Eq(a.h, tt.BV(64, fnv64a(bs))))
			if w.solver.Check() == "sat" {
				nm, err := w.solver.GetModel(p.vars)
				if err != nil {
					return false
				}
				m = nm
				ok = true
				break
			}
			w.solver.Pop(1)
			depth--
			if os.Getenv("GOSYM_DEBUG_REAL") != "" {
				fmt.Fprintf(os.Stderr, "realise: app %s site %s try %d unsat, fresh=%d\n", a.h.name, a.site, try, len(fresh))
			}
			if len(block) == 0 {
				return false
			}
			// another value for the fresh leaves of this application
			w.solver.Assert(tt.Or(block...))
			if r := w.solver.Check(); r != "sat" {
				if os.Getenv("GOSYM_DEBUG_REAL") != "" {
					fmt.Fprintf(os.Stderr, "realise: blocking %s gives %s\n", tt.Or(block...).SMT(), r)
					for _, c := range p.pc {
						if x := c.SMT(); len(x) < 300 {
							fmt.Fprintf(os.Stderr, "   pc %s\n", x)
						}
					}
					if p.violTerm != nil {
						fmt.Fprintf(os.Stderr, "   viol %s\n", p.violTerm.SMT())
					}
				}
				return false
			}
			nm, err := w.solver.GetModel(p.vars)
			if err != nil {
				return false
			}
			m = nm
		}
		if !ok {
			return false
		}
		for _, v := range fresh {
			pinned[v.name] = true
		}
		pinned[a.h.name] = true
	}
	if m2, ok := p.realHashes(m); ok {
		p.model = m2
		return true
	}
	return false
}

// ---------- DFS driver ----------

// backtrack returns the next log to explore, or nil.
func backtrack(log []Event, fixed int) []Event {
	for i := len(log) - 1; i >= fixed; i-- {
		ev := log[i]
		switch ev.Kind {
		case 'b':
			if ev.Alt {
				nl := append([]Event(nil), log[:i+1]...)
				nl[i].Val = 1 - ev.Val
				nl[i].Alt = false
				return nl
			}
		case 'c':
			if ev.Val+1 < ev.N {
				nl := append([]Event(nil), log[:i+1]...)
				nl[i].Val = ev.Val + 1
				return nl
			}
		}
	}
	return nil
}

// splitShallowest removes the shallowest untried alternative from log (marking it
// taken) and returns it as a new job prefix.
func splitShallowest(log []Event, fixed int) ([]Event, bool) {
	for i := fixed; i < len(log); i++ {
		ev := &log[i]
		switch ev.Kind {
		case 'b':
			if ev.Alt {
				nl := append([]Event(nil), log[:i+1]...)
				nl[i].Val = 1 - ev.Val
				nl[i].Alt = false
				nl[i].model = ev.model
				ev.Alt = false
				ev.model = nil
				for j := range nl[:i] {
					nl[j].model = nil
					nl[j].Alt = false
					if nl[j].Kind == 'c' {
						nl[j].N = nl[j].Val + 1
					}
				}
				return nl, true
			}
		case 'c':
			if ev.Val+1 < ev.N {
				// donate the upper half of the remaining choices: here simply the last one
				nl := append([]Event(nil), log[:i+1]...)
				nl[i].Val = ev.N - 1
				nl[i].N = ev.N
				ev.N = ev.N - 1
				for j := range nl[:i] {
					nl[j].model = nil
					nl[j].Alt = false
					if nl[j].Kind == 'c' {
						nl[j].N = nl[j].Val + 1
					}
				}
				return nl, true
			}
		}
	}
	return nil, false
}

func describeInputs(ins []Input, m Model) ([]uint64, []string) {
	vals := make([]uint64, len(ins))
	kinds := make([]string, len(ins))
	for i, in := range ins {
		kinds[i] = in.Kind
		if in.t == nil {
			vals[i] = uint64(in.conc)
			continue
		}
		v, _ := in.t.Eval(m)
		vals[i] = v
	}
	return vals, kinds
}

func fmtInputs(vals []uint64, kinds []string) string {
	var sb strings.Builder
	for i := range vals {
		if i > 0 {
			sb.WriteString(" ")
		}
		switch kinds[i] {
		case "f64":
			fmt.Fprintf(&sb, "f64:%v", math.Float64frombits(vals[i]))
		case "int":
			fmt.Fprintf(&sb, "int:%d", int64(vals[i]))
		default:
			fmt.Fprintf(&sb, "%s:%d", kinds[i], vals[i])
		}
	}
	return sb.String()
}

func sortedKeys(m map[string]int) []string {
	ks := make([]string, 0, len(m))
	for k := range m {
		ks = append(ks, k)
	}
	sort.Strings(ks)
	return ks
}
