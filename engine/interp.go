package main

// SSA interpreter over symbolic scalars.

import (
	"fmt"
	"go/constant"
	"go/token"
	"go/types"
	"reflect"
	"strings"
	"unicode/utf8"

	"golang.org/x/tools/go/ssa"
)

type progPanic struct {
	msg  string
	site string
}

type Interp struct {
	w       *Worker
	tt      *TermTable
	prog    *ssa.Program
	path    *Path
	globals map[*ssa.Global]*Value
	sizes   types.Sizes
	depth   int
	stack   []string
	bufs    map[*Value]*bufState
	funcCov map[string]bool
}

type frame struct {
	in        *Interp
	fn        *ssa.Function
	env       map[ssa.Value]Value
	block     *ssa.BasicBlock
	prevBlock *ssa.BasicBlock
	result    Value
}

const maxSteps = 4000000
const maxDepth = 400

func (fr *frame) get(v ssa.Value) Value {
	switch v := v.(type) {
	case *ssa.Const:
		return fr.in.constValue(v)
	case *ssa.Global:
		return Ptr{fr.in.global(v)}
	case *ssa.Function:
		return v
	case *ssa.Builtin:
		return v
	case nil:
		return nil
	}
	if r, ok := fr.env[v]; ok {
		return r
	}
	panic(fmt.Sprintf("get: no value for %T %v in %s", v, v.Name(), fr.fn))
}

func (in *Interp) global(g *ssa.Global) *Value {
	if p, ok := in.globals[g]; ok {
		return p
	}
	p := new(Value)
	*p = in.zero(g.Type().(*types.Pointer).Elem())
	in.globals[g] = p
	if g.String() == "os.Args" {
		*p = Slice{v: []Value{in.strConst("jd")}}
		return p
	}
	if g.Pkg != nil && !in.w.eng.interpretPkg(g.Pkg.Pkg.Path()) {
		// a global of a package whose init we do not run: only zero-size values are trustworthy
		if in.sizes.Sizeof(g.Type().(*types.Pointer).Elem()) != 0 {
			if !in.w.eng.allowGlobal[g.String()] {
				panic(unsupported("global of uninitialised package: " + g.String()))
			}
		}
	}
	return p
}

func (in *Interp) constValue(c *ssa.Const) Value {
	t := c.Type()
	if c.Value == nil {
		return in.zero(t)
	}
	bt, ok := t.Underlying().(*types.Basic)
	if !ok {
		if _, isTP := t.(*types.TypeParam); isTP {
			panic(unsupported("const of type param"))
		}
		panic(fmt.Sprintf("const of non-basic type %v", t))
	}
	switch {
	case bt.Info()&types.IsBoolean != 0:
		return in.tt.Bool(constant.BoolVal(c.Value))
	case bt.Info()&types.IsString != 0:
		return in.strConst(constant.StringVal(c.Value))
	case bt.Info()&types.IsInteger != 0:
		w := intWidth(bt)
		if bt.Info()&types.IsUnsigned != 0 {
			u, _ := constant.Uint64Val(constant.ToInt(c.Value))
			return in.tt.BV(w, u)
		}
		i, _ := constant.Int64Val(constant.ToInt(c.Value))
		return in.tt.BV(w, uint64(i))
	case bt.Info()&types.IsFloat != 0:
		f, _ := constant.Float64Val(c.Value)
		return in.tt.FPConst(f)
	}
	panic(unsupported(fmt.Sprintf("const kind %v", bt)))
}

func (in *Interp) runtimePanic(msg string) {
	panic(progPanic{msg: msg, site: in.where()})
}

// shortName: "(pkg/path.T).m" -> "T.m", "pkg/path.f" -> "f"
func shortName(n string) string {
	n = strings.ReplaceAll(n, "github.com/josephburnett/jd/v2.", "")
	n = strings.ReplaceAll(n, "github.com/josephburnett/jd/lib.", "lib.")
	n = strings.ReplaceAll(n, "github.com/yudai/golcs.", "lcs.")
	n = strings.ReplaceAll(n, "(", "")
	n = strings.ReplaceAll(n, ")", "")
	n = strings.ReplaceAll(n, "*", "")
	return n
}

func (in *Interp) where() string {
	if len(in.stack) == 0 {
		return ""
	}
	n := len(in.stack)
	lo := n - 4
	if lo < 0 {
		lo = 0
	}
	return strings.Join(in.stack[lo:], " > ")
}

// callFunction runs an SSA function.
func (in *Interp) callFunction(fn *ssa.Function, args []Value, env []Value) Value {
	if fn == nil {
		in.runtimePanic("call of nil func")
	}
	name := fn.String()
	if m, ok := in.w.eng.models[name]; ok {
		return m(in, fn, args)
	}
	if fn.Origin() != nil {
		if m, ok := in.w.eng.models[fn.Origin().String()]; ok {
			return m(in, fn, args)
		}
	}
	pkgPath := ""
	if fn.Pkg != nil {
		pkgPath = fn.Pkg.Pkg.Path()
	} else if fn.Origin() != nil && fn.Origin().Pkg != nil {
		pkgPath = fn.Origin().Pkg.Pkg.Path()
	} else if o := fn.Object(); o != nil && o.Pkg() != nil {
		pkgPath = o.Pkg().Path()
	}
	if fn.Parent() != nil {
		p := fn
		for p.Parent() != nil {
			p = p.Parent()
		}
		if p.Pkg != nil {
			pkgPath = p.Pkg.Pkg.Path()
		} else if p.Origin() != nil && p.Origin().Pkg != nil {
			pkgPath = p.Origin().Pkg.Pkg.Path()
		}
	}
	if in.w.eng.noInit[pkgPath] && fn.Name() == "init" && fn.Synthetic != "" {
		return nil
	}
	if !in.w.eng.interpretPkg(pkgPath) {
		if fn.Name() == "init" && fn.Synthetic != "" {
			return nil // initialiser of a modelled package
		}
		if fn.Synthetic != "" && strings.HasPrefix(fn.Synthetic, "wrapper") || strings.HasPrefix(fn.Synthetic, "bound") || strings.HasPrefix(fn.Synthetic, "thunk") {
			// wrappers live in no package: interpret them
		} else if pkgPath != "" || len(fn.Blocks) == 0 {
			panic(unsupported("external function without model: " + name))
		}
	}
	if len(fn.Blocks) == 0 {
		panic(unsupported("function without body: " + name))
	}
	if in.depth > maxDepth {
		panic(pathEnd{"budget", "call depth"})
	}
	in.depth++
	in.stack = append(in.stack, shortName(name))
	if in.funcCov != nil && pkgPath != "" {
		in.funcCov[name] = true
	}
	fr := &frame{in: in, fn: fn, env: make(map[ssa.Value]Value, 32)}
	for i, p := range fn.Params {
		fr.env[p] = args[i]
	}
	for i, fv := range fn.FreeVars {
		fr.env[fv] = env[i]
	}
	for _, l := range fn.Locals {
		p := new(Value)
		fr.env[l] = Ptr{p}
	}
	fr.block = fn.Blocks[0]
	fr.run()
	in.stack = in.stack[:len(in.stack)-1]
	in.depth--
	return fr.result
}

func (fr *frame) run() {
	in := fr.in
	for fr.block != nil {
		b := fr.block
		// phis
		idx := 0
		if fr.prevBlock != nil {
			for i, p := range b.Preds {
				if p == fr.prevBlock {
					idx = i
					break
				}
			}
		}
		var phiVals []Value
		nphi := 0
		for _, instr := range b.Instrs {
			phi, ok := instr.(*ssa.Phi)
			if !ok {
				break
			}
			phiVals = append(phiVals, fr.get(phi.Edges[idx]))
			nphi++
		}
		for i := 0; i < nphi; i++ {
			fr.env[b.Instrs[i].(*ssa.Phi)] = phiVals[i]
		}
		jumped := false
		for _, instr := range b.Instrs[nphi:] {
			in.path.steps++
			if in.path.steps > maxSteps {
				panic(pathEnd{"budget", "step budget in " + shortName(fr.fn.String())})
			}
			if fr.visit(instr) {
				jumped = true
				break
			}
		}
		if !jumped {
			panic("fell off block " + fr.fn.String())
		}
	}
}

// storeInPlace keeps the identity of struct fields / array elements (pointers into them stay valid).
func storeInPlace(addr *Value, v Value) {
	switch rhs := v.(type) {
	case Struct:
		if lhs, ok := (*addr).(Struct); ok && len(lhs) == len(rhs) {
			for i := range lhs {
				storeInPlace(&lhs[i], rhs[i])
			}
			return
		}
	case Array:
		if lhs, ok := (*addr).(Array); ok && len(lhs) == len(rhs) {
			tmp := copyVal(rhs).(Array)
			for i := range lhs {
				storeInPlace(&lhs[i], tmp[i])
			}
			return
		}
	}
	*addr = copyVal(v)
}

func deref(t types.Type) types.Type {
	if p, ok := t.Underlying().(*types.Pointer); ok {
		return p.Elem()
	}
	panic("deref of non-pointer " + t.String())
}

// visit returns true when control transferred.
func (fr *frame) visit(instr ssa.Instruction) bool {
	in := fr.in
	tt := in.tt
	switch instr := instr.(type) {
	case *ssa.DebugRef:
	case *ssa.UnOp:
		fr.env[instr] = in.unop(instr, fr.get(instr.X))
	case *ssa.BinOp:
		fr.env[instr] = in.binop(instr.Op, instr.X.Type(), fr.get(instr.X), fr.get(instr.Y))
	case *ssa.Call:
		fr.env[instr] = in.doCall(fr, &instr.Call)
	case *ssa.ChangeInterface:
		fr.env[instr] = fr.get(instr.X)
	case *ssa.ChangeType:
		fr.env[instr] = fr.get(instr.X)
	case *ssa.Convert:
		fr.env[instr] = in.conv(instr.Type(), instr.X.Type(), fr.get(instr.X))
	case *ssa.MakeInterface:
		fr.env[instr] = Iface{t: instr.X.Type(), v: fr.get(instr.X)}
	case *ssa.Extract:
		fr.env[instr] = fr.get(instr.Tuple).(Tuple)[instr.Index]
	case *ssa.Slice:
		fr.env[instr] = in.sliceOp(instr, fr.get(instr.X), fr.get(instr.Low), fr.get(instr.High), fr.get(instr.Max))
	case *ssa.Return:
		switch len(instr.Results) {
		case 0:
		case 1:
			fr.result = fr.get(instr.Results[0])
		default:
			res := make(Tuple, len(instr.Results))
			for i, r := range instr.Results {
				res[i] = fr.get(r)
			}
			fr.result = res
		}
		fr.block = nil
		return true
	case *ssa.RunDefers:
		// no defers are supported; Defer instructions abort the path
	case *ssa.Defer:
		panic(unsupported("defer"))
	case *ssa.Go:
		panic(unsupported("go statement"))
	case *ssa.Panic:
		v := fr.get(instr.X)
		in.runtimePanic("panic: " + in.describe(v))
	case *ssa.Store:
		p := fr.get(instr.Addr).(Ptr)
		if p.p == nil {
			in.runtimePanic("nil pointer dereference (store)")
		}
		storeInPlace(p.p, fr.get(instr.Val))
	case *ssa.If:
		c := fr.get(instr.Cond).(*Term)
		succ := 1
		if in.path.Branch(c) {
			succ = 0
		}
		fr.prevBlock, fr.block = fr.block, fr.block.Succs[succ]
		return true
	case *ssa.Jump:
		fr.prevBlock, fr.block = fr.block, fr.block.Succs[0]
		return true
	case *ssa.Alloc:
		var p *Value
		if instr.Heap {
			p = new(Value)
			fr.env[instr] = Ptr{p}
		} else {
			p = fr.env[instr].(Ptr).p
		}
		*p = in.zero(deref(instr.Type()))
	case *ssa.MakeSlice:
		if lt, ok := fr.get(instr.Len).(*Term); ok && !lt.IsConst() {
			if !in.path.Branch(in.tt.Ule(lt, in.tt.BV(lt.w, 1<<20))) {
				in.runtimePanic("makeslice: len out of range")
			}
		}
		ln := in.concreteInt(fr.get(instr.Len), "make len")
		cp := in.concreteInt(fr.get(instr.Cap), "make cap")
		if ln < 0 || ln > 1<<24 {
			in.runtimePanic("makeslice: len out of range")
		}
		if cp < ln || cp > 1<<24 {
			in.runtimePanic("makeslice: cap out of range")
		}
		et := instr.Type().Underlying().(*types.Slice).Elem()
		s := make([]Value, cp)
		for i := range s {
			s[i] = in.zero(et)
		}
		fr.env[instr] = Slice{v: s[:ln]}
	case *ssa.MakeMap:
		fr.env[instr] = MapRef{m: &MapObj{}}
	case *ssa.Range:
		fr.env[instr] = in.rangeIter(fr.get(instr.X))
	case *ssa.Next:
		fr.env[instr] = in.next(fr.get(instr.Iter).(*MapIter), instr.IsString)
	case *ssa.FieldAddr:
		p := fr.get(instr.X).(Ptr)
		if p.p == nil {
			in.runtimePanic("nil pointer dereference (field)")
		}
		st, ok := (*p.p).(Struct)
		if !ok {
			panic(unsupported(fmt.Sprintf("field access on modelled object %T in %s", *p.p, fr.fn)))
		}
		fr.env[instr] = Ptr{&st[instr.Field]}
	case *ssa.Field:
		fr.env[instr] = fr.get(instr.X).(Struct)[instr.Field]
	case *ssa.IndexAddr:
		x := fr.get(instr.X)
		switch x := x.(type) {
		case Slice:
			i := in.index(fr.get(instr.Index), len(x.v))
			fr.env[instr] = Ptr{&x.v[i]}
		case Ptr:
			if x.p == nil {
				in.runtimePanic("nil pointer dereference (array)")
			}
			arr := (*x.p).(Array)
			i := in.index(fr.get(instr.Index), len(arr))
			fr.env[instr] = Ptr{&arr[i]}
		default:
			panic(fmt.Sprintf("IndexAddr on %T", x))
		}
	case *ssa.Index:
		x := fr.get(instr.X)
		switch x := x.(type) {
		case Array:
			i := in.index(fr.get(instr.Index), len(x))
			fr.env[instr] = x[i]
		case Str:
			i := in.index(fr.get(instr.Index), len(x.elems))
			if x.elems[i].tok != nil {
				panic(unsupported("byte index into codec token"))
			}
			fr.env[instr] = x.elems[i].b
		default:
			panic(fmt.Sprintf("Index on %T", x))
		}
	case *ssa.Lookup:
		x := fr.get(instr.X)
		switch x := x.(type) {
		case Str:
			i := in.index(fr.get(instr.Index), len(x.elems))
			if x.elems[i].tok != nil {
				panic(unsupported("byte index into codec token"))
			}
			fr.env[instr] = x.elems[i].b
		case MapRef:
			var v Value
			ok := false
			if x.m != nil {
				if e := in.mapFind(x.m, fr.get(instr.Index)); e != nil {
					v = copyVal(e.v)
					ok = true
				}
			}
			if !ok {
				v = in.zero(instr.X.Type().Underlying().(*types.Map).Elem())
			}
			if instr.CommaOk {
				fr.env[instr] = Tuple{v, tt.Bool(ok)}
			} else {
				fr.env[instr] = v
			}
		default:
			panic(fmt.Sprintf("Lookup on %T", x))
		}
	case *ssa.MapUpdate:
		m := fr.get(instr.Map).(MapRef)
		if m.m == nil {
			in.runtimePanic("assignment to entry in nil map")
		}
		in.mapSet(m.m, fr.get(instr.Key), copyVal(fr.get(instr.Value)))
	case *ssa.TypeAssert:
		fr.env[instr] = in.typeAssert(instr, fr.get(instr.X).(Iface))
	case *ssa.MakeClosure:
		b := make([]Value, len(instr.Bindings))
		for i, x := range instr.Bindings {
			b[i] = fr.get(x)
		}
		fr.env[instr] = &Closure{fn: instr.Fn.(*ssa.Function), env: b}
	case *ssa.Select:
		if instr.Blocking {
			panic(unsupported("blocking select"))
		}
		for _, st := range instr.States {
			ch := fr.get(st.Chan)
			if p, ok := ch.(Ptr); !ok || p.p != nil {
				panic(unsupported("select on non-nil channel"))
			}
		}
		r := Tuple{tt.BV(64, ^uint64(0)), tt.F}
		for _, st := range instr.States {
			if st.Dir == types.RecvOnly {
				r = append(r, in.zero(st.Chan.Type().Underlying().(*types.Chan).Elem()))
			}
		}
		fr.env[instr] = r
	case *ssa.SliceToArrayPointer:
		panic(unsupported("slice to array pointer"))
	default:
		panic(unsupported(fmt.Sprintf("instruction %T", instr)))
	}
	return false
}

// concreteInt concretises an integer value (forking over small domains).
func (in *Interp) concreteInt(v Value, what string) int64 {
	if v == nil {
		return 0
	}
	t := v.(*Term)
	if t.IsConst() {
		return t.SVal()
	}
	return in.path.concretize(t, what)
}

// index bounds-checks (possibly symbolically) and concretises an index.
func (in *Interp) index(v Value, n int) int {
	t := v.(*Term)
	if t.IsConst() {
		i := t.SVal()
		if i < 0 || i >= int64(n) {
			in.runtimePanic(fmt.Sprintf("index out of range [%d] with length %d", i, n))
		}
		return int(i)
	}
	t64 := t
	if t.w != 64 {
		t64 = in.tt.Sext(t, 64) // signedness approximated; indices are ints in scope
	}
	inRange := in.tt.Ult(t64, in.tt.BV(64, uint64(n)))
	if !in.path.Branch(inRange) {
		in.runtimePanic(fmt.Sprintf("index out of range [symbolic] with length %d", n))
	}
	return int(in.path.concretize(t64, "index"))
}

func (in *Interp) doCall(fr *frame, c *ssa.CallCommon) Value {
	args := make([]Value, 0, len(c.Args)+1)
	if c.Method != nil {
		recv := fr.get(c.Value).(Iface)
		if recv.t == nil {
			in.runtimePanic("method " + c.Method.Name() + " invoked on nil interface")
		}
		f := in.prog.LookupMethod(recv.t, c.Method.Pkg(), c.Method.Name())
		if f == nil {
			panic(fmt.Sprintf("no method %s on %v", c.Method.Name(), recv.t))
		}
		args = append(args, recv.v)
		for _, a := range c.Args {
			args = append(args, fr.get(a))
		}
		return in.callFunction(f, args, nil)
	}
	fv := fr.get(c.Value)
	for _, a := range c.Args {
		args = append(args, fr.get(a))
	}
	switch f := fv.(type) {
	case *ssa.Function:
		return in.callFunction(f, args, nil)
	case *Closure:
		return in.callFunction(f.fn, args, f.env)
	case *ssa.Builtin:
		return in.builtin(f, c, args)
	}
	panic(fmt.Sprintf("call of %T", fv))
}

// callValue calls a func value (used by models).
func (in *Interp) callValue(fv Value, args []Value) Value {
	switch f := fv.(type) {
	case *ssa.Function:
		return in.callFunction(f, args, nil)
	case *Closure:
		return in.callFunction(f.fn, args, f.env)
	}
	panic(fmt.Sprintf("callValue of %T", fv))
}

// invoke calls a method on an interface value by name (used by models).
func (in *Interp) invoke(recv Iface, name string, args ...Value) Value {
	if recv.t == nil {
		in.runtimePanic("method " + name + " invoked on nil interface")
	}
	ms := in.prog.MethodSets.MethodSet(recv.t)
	for i := 0; i < ms.Len(); i++ {
		sel := ms.At(i)
		if sel.Obj().Name() == name {
			f := in.prog.MethodValue(sel)
			return in.callFunction(f, append([]Value{recv.v}, args...), nil)
		}
	}
	panic(fmt.Sprintf("invoke: no method %s on %v", name, recv.t))
}

func (in *Interp) typeAssert(instr *ssa.TypeAssert, x Iface) Value {
	ok := false
	var v Value
	if it, isIface := instr.AssertedType.Underlying().(*types.Interface); isIface {
		if x.t != nil && types.Implements(x.t, it) {
			ok = true
			v = x
		}
	} else if x.t != nil && types.Identical(x.t, instr.AssertedType) {
		ok = true
		v = copyVal(x.v)
	}
	if instr.CommaOk {
		if !ok {
			v = in.zero(instr.AssertedType)
		}
		return Tuple{v, in.tt.Bool(ok)}
	}
	if !ok {
		in.runtimePanic(fmt.Sprintf("interface conversion: interface is %s, not %s", typeString(x.t), typeString(instr.AssertedType)))
	}
	return v
}

func (in *Interp) unop(instr *ssa.UnOp, x Value) Value {
	tt := in.tt
	switch instr.Op {
	case token.MUL:
		p := x.(Ptr)
		if p.p == nil {
			in.runtimePanic("nil pointer dereference (load)")
		}
		return copyVal(*p.p)
	case token.NOT:
		return tt.Not(x.(*Term))
	case token.SUB:
		t := x.(*Term)
		if t.w == SortFP {
			return tt.FpUn(OFpNeg, t)
		}
		return tt.Neg(t)
	case token.XOR:
		return tt.BvNot(x.(*Term))
	case token.ARROW:
		panic(unsupported("channel receive"))
	}
	panic(fmt.Sprintf("unop %v", instr.Op))
}

func (in *Interp) binop(op token.Token, t types.Type, x, y Value) Value {
	tt := in.tt
	switch op {
	case token.EQL:
		return in.eqValue(x, y)
	case token.NEQ:
		return tt.Not(in.eqValue(x, y))
	}
	switch a := x.(type) {
	case Str:
		b := y.(Str)
		switch op {
		case token.ADD:
			return Str{elems: append(append([]SElem(nil), a.elems...), b.elems...)}
		case token.LSS:
			return in.strLess(a, b)
		case token.GTR:
			return in.strLess(b, a)
		case token.LEQ:
			return tt.Not(in.strLess(b, a))
		case token.GEQ:
			return tt.Not(in.strLess(a, b))
		}
	case *Term:
		b := y.(*Term)
		if a.w == SortFP {
			switch op {
			case token.ADD:
				return tt.FpBin(OFpAdd, a, b)
			case token.SUB:
				return tt.FpBin(OFpSub, a, b)
			case token.MUL:
				return tt.FpBin(OFpMul, a, b)
			case token.QUO:
				return tt.FpBin(OFpDiv, a, b)
			case token.LSS:
				return in.fpCmp(OFpLt, a, b)
			case token.LEQ:
				return in.fpCmp(OFpLe, a, b)
			case token.GTR:
				return in.fpCmp(OFpLt, b, a)
			case token.GEQ:
				return in.fpCmp(OFpLe, b, a)
			}
			panic(fmt.Sprintf("fp binop %v", op))
		}
		signed := isSigned(t)
		if a.w == SortBool {
			switch op {
			case token.AND, token.LAND:
				return tt.And(a, b)
			case token.OR, token.LOR:
				return tt.Or(a, b)
			}
			panic(fmt.Sprintf("bool binop %v", op))
		}
		if op == token.SHL || op == token.SHR {
			if b.w != a.w {
				if b.w > a.w {
					// large shift counts: clamp
					if b.IsConst() {
						v := b.val
						if v > uint64(a.w) {
							v = uint64(a.w)
						}
						b = tt.BV(a.w, v)
					} else {
						panic(unsupported("symbolic wide shift count"))
					}
				} else {
					b = tt.Zext(b, a.w)
				}
			}
			if op == token.SHL {
				return tt.BvOp(OShl, a, b)
			}
			if signed {
				return tt.BvOp(OAshr, a, b)
			}
			return tt.BvOp(OLshr, a, b)
		}
		switch op {
		case token.ADD:
			return tt.Add(a, b)
		case token.SUB:
			return tt.Sub(a, b)
		case token.MUL:
			return tt.Mul(a, b)
		case token.QUO, token.REM:
			if in.path.Branch(tt.Eq(b, tt.BV(b.w, 0))) {
				in.runtimePanic("integer divide by zero")
			}
			if op == token.QUO {
				if signed {
					return tt.BvOp(OSdiv, a, b)
				}
				return tt.BvOp(OUdiv, a, b)
			}
			if signed {
				return tt.BvOp(OSrem, a, b)
			}
			return tt.BvOp(OUrem, a, b)
		case token.AND:
			return tt.BvOp(OBvAnd, a, b)
		case token.OR:
			return tt.BvOp(OBvOr, a, b)
		case token.XOR:
			return tt.BvOp(OBvXor, a, b)
		case token.AND_NOT:
			return tt.BvOp(OBvAnd, a, tt.BvNot(b))
		case token.LSS:
			if signed {
				return tt.Slt(a, b)
			}
			return tt.Ult(a, b)
		case token.LEQ:
			if signed {
				return tt.Sle(a, b)
			}
			return tt.Ule(a, b)
		case token.GTR:
			if signed {
				return tt.Slt(b, a)
			}
			return tt.Ult(b, a)
		case token.GEQ:
			if signed {
				return tt.Sle(b, a)
			}
			return tt.Ule(b, a)
		}
	}
	panic(fmt.Sprintf("binop %v on %T", op, x))
}

func (in *Interp) strLess(a, b Str) *Term {
	tt := in.tt
	if a.hasTok() || b.hasTok() {
		panic(unsupported("ordering of strings holding codec tokens"))
	}
	// lexicographic: exists i: prefix equal and a[i] < b[i]; or a proper prefix of b
	res := tt.F
	prefixEq := tt.T
	n := len(a.elems)
	if len(b.elems) < n {
		n = len(b.elems)
	}
	for i := 0; i < n; i++ {
		res = tt.Or(res, tt.And(prefixEq, tt.Ult(a.elems[i].b, b.elems[i].b)))
		prefixEq = tt.And(prefixEq, tt.Eq(a.elems[i].b, b.elems[i].b))
	}
	if len(a.elems) < len(b.elems) {
		res = tt.Or(res, prefixEq)
	}
	return res
}

// ---- floating point helpers ----

func (in *Interp) finiteKnown(t *Term) bool {
	switch t.op {
	case OConst:
		f := fpc(t)
		return f == f && f-f == 0
	case OFpOfSInt, OFpOfSIntR:
		return true
	case OFpOfBits:
		return in.path.finite[t.args[0].id]
	}
	return false
}

// fpEq: IEEE equality. For finite operands given as bit patterns this is pure BV.
func (in *Interp) fpEq(a, b *Term) *Term {
	tt := in.tt
	if a.IsConst() && b.IsConst() {
		return tt.FpCmp(OFpEq, a, b)
	}
	if ia, ok := fpExactInt(a); ok {
		if ib, ok := fpExactInt(b); ok {
			return tt.Eq(ia, ib)
		}
		if b.IsConst() {
			f := fpc(b)
			if f == float64(int64(f)) && f < 9e15 && f > -9e15 {
				return tt.Eq(ia, tt.BV(64, uint64(int64(f))))
			}
			return tt.F
		}
	}
	if _, ok := fpExactInt(b); ok {
		if _, ok2 := fpExactInt(a); !ok2 {
			return in.fpEq(b, a)
		}
	}
	if in.finiteKnown(a) && in.finiteKnown(b) {
		ba, oka := fpBits(tt, a)
		bb, okb := fpBits(tt, b)
		if oka && okb {
			// lemma (checked by the selftest): for non-NaN x,y: x == y  <=>  bits equal or both are ±0
			bothZero := tt.Eq(tt.BvOp(OShl, tt.BvOp(OBvOr, ba, bb), tt.BV(64, 1)), tt.BV(64, 0))
			return tt.Or(tt.Eq(ba, bb), bothZero)
		}
	}
	return tt.FpCmp(OFpEq, a, b)
}

func fpBits(tt *TermTable, a *Term) (*Term, bool) {
	switch a.op {
	case OConst:
		return tt.BV(64, a.val), true
	case OFpOfBits:
		return a.args[0], true
	}
	return nil, false
}

func (in *Interp) fpCmp(op Op, a, b *Term) *Term {
	tt := in.tt
	// |x-y| <= 0  for finite x,y  <=>  x == y   (lemma checked by the selftest)
	if op == OFpLe && b.IsConst() && fpc(b) == 0 && a.op == OFpAbs && a.args[0].op == OFpSub {
		x, y := a.args[0].args[0], a.args[0].args[1]
		if in.finiteKnown(x) && in.finiteKnown(y) {
			return in.fpEq(x, y)
		}
	}
	if ia, ok := fpExactInt(a); ok {
		if ib, ok := fpExactInt(b); ok {
			if op == OFpLt {
				return tt.Slt(ia, ib)
			}
			return tt.Sle(ia, ib)
		}
	}
	return tt.FpCmp(op, a, b)
}

// ---- conversions ----

func (in *Interp) conv(dst, src types.Type, x Value) Value {
	tt := in.tt
	ud, us := dst.Underlying(), src.Underlying()
	switch ud := ud.(type) {
	case *types.Basic:
		switch us := us.(type) {
		case *types.Basic:
			t, isTerm := x.(*Term)
			switch {
			case ud.Info()&types.IsString != 0:
				if us.Info()&types.IsString != 0 {
					return x
				}
				if us.Info()&types.IsInteger != 0 {
					if !t.IsConst() {
						panic(unsupported("string(symbolic rune)"))
					}
					return in.strConst(string(rune(t.SVal())))
				}
			case ud.Info()&types.IsInteger != 0 && isTerm:
				w := intWidth(ud)
				if t.w == SortFP {
					r := tt.FpToSInt(t)
					if w != 64 {
						r = tt.Extract(w-1, 0, r)
					}
					return r
				}
				if us.Info()&types.IsUnsigned != 0 {
					return tt.Zext(t, w)
				}
				return tt.Sext(t, w)
			case ud.Info()&types.IsFloat != 0 && isTerm:
				if t.w == SortFP {
					return t
				}
				if us.Info()&types.IsUnsigned != 0 {
					if t.IsConst() {
						return tt.FPConst(float64(t.val))
					}
					panic(unsupported("unsigned symbolic int to float"))
				}
				if fb, ok := tt.floatOfTruncated(t); ok {
					in.path.finite[fb.id] = true
					return tt.FpOfBits(fb)
				}
				if !t.IsConst() && !in.smallInt(t) {
					return tt.FpOfSIntR(tt.Sext(t, 64))
				}
				return tt.FpOfSInt(tt.Sext(t, 64))
			case ud.Kind() == types.UnsafePointer:
				return x
			}
		case *types.Slice:
			// []byte / []rune -> string
			s := x.(Slice)
			if ud.Info()&types.IsString != 0 {
				eb, _ := us.Elem().Underlying().(*types.Basic)
				if eb != nil && eb.Kind() == types.Uint8 {
					out := make([]SElem, len(s.v))
					for i, e := range s.v {
						switch e := e.(type) {
						case *Term:
							out[i] = SElem{b: e}
						case *Tok:
							out[i] = SElem{tok: e}
						}
					}
					return Str{elems: out}
				}
				if eb != nil && eb.Kind() == types.Int32 {
					var sb strings.Builder
					for _, e := range s.v {
						t := e.(*Term)
						if !t.IsConst() {
							panic(unsupported("string([]rune) symbolic"))
						}
						sb.WriteRune(rune(t.SVal()))
					}
					return in.strConst(sb.String())
				}
			}
		}
	case *types.Slice:
		if ub, ok := us.(*types.Basic); ok && ub.Info()&types.IsString != 0 {
			s := x.(Str)
			eb := ud.Elem().Underlying().(*types.Basic)
			if eb.Kind() == types.Uint8 {
				out := make([]Value, len(s.elems))
				for i, e := range s.elems {
					if e.tok != nil {
						out[i] = e.tok
					} else {
						out[i] = e.b
					}
				}
				return Slice{v: out}
			}
			if eb.Kind() == types.Int32 {
				cs, ok := s.concrete()
				if !ok {
					panic(unsupported("[]rune(symbolic string)"))
				}
				rs := []rune(cs)
				out := make([]Value, len(rs))
				for i, r := range rs {
					out[i] = tt.BV(32, uint64(r))
				}
				return Slice{v: out}
			}
		}
		if _, ok := us.(*types.Slice); ok {
			return x
		}
	case *types.Pointer:
		return x
	}
	if types.Identical(ud, us) {
		return x
	}
	panic(unsupported(fmt.Sprintf("conversion %v -> %v", src, dst)))
}

// smallInt forks on |t| < 2^52 (int -> float64 exact).
func (in *Interp) smallInt(t *Term) bool {
	tt := in.tt
	t64 := tt.Sext(t, 64)
	lim := tt.BV(64, 1<<52)
	return in.path.Branch(tt.And(tt.Slt(t64, lim), tt.Slt(tt.Neg(lim), t64)))
}

// requireSmallInt: int -> float64 is exact only below 2^53.
func (in *Interp) requireSmallInt(t *Term) {
	tt := in.tt
	t64 := tt.Sext(t, 64)
	lim := tt.BV(64, 1<<52)
	small := tt.And(tt.Slt(t64, lim), tt.Slt(tt.Neg(lim), t64))
	if !in.path.Branch(small) {
		panic(unsupported("int->float64 of an integer beyond 2^52"))
	}
}

// ---- slices ----

func (in *Interp) sliceOp(instr *ssa.Slice, x, lo, hi, max Value) Value {
	switch x := x.(type) {
	case Str:
		n := len(x.elems)
		l, h := in.bounds(lo, hi, n, n)
		return Str{elems: x.elems[l:h]}
	case Slice:
		n := cap(x.v)
		l, h := in.bounds(lo, hi, len(x.v), n)
		m := n
		if max != nil {
			m = int(in.concreteInt(max, "slice max"))
			if m < h || m > n {
				in.runtimePanic("slice bounds out of range (max)")
			}
		}
		if x.v == nil {
			return Slice{}
		}
		return Slice{v: x.v[l:h:m]}
	case Ptr:
		if x.p == nil {
			in.runtimePanic("nil pointer dereference (slice of array)")
		}
		arr := (*x.p).(Array)
		n := len(arr)
		l, h := in.bounds(lo, hi, n, n)
		return Slice{v: []Value(arr)[l:h:n]}
	}
	panic(fmt.Sprintf("slice of %T", x))
}

func (in *Interp) bounds(lo, hi Value, ln, cp int) (int, int) {
	l := 0
	h := ln
	if hi != nil {
		ht := hi.(*Term)
		if !ht.IsConst() {
			// in range?
			if !in.path.Branch(in.tt.Ule(ht, in.tt.BV(64, uint64(cp)))) {
				in.runtimePanic(fmt.Sprintf("slice bounds out of range [:symbolic] with capacity %d", cp))
			}
		}
		h = int(in.concreteInt(hi, "slice high"))
		if h < 0 || h > cp {
			in.runtimePanic(fmt.Sprintf("slice bounds out of range [:%d] with capacity %d", h, cp))
		}
	}
	if lo != nil {
		lt := lo.(*Term)
		if !lt.IsConst() {
			if !in.path.Branch(in.tt.Ule(lt, in.tt.BV(64, uint64(h)))) {
				in.runtimePanic(fmt.Sprintf("slice bounds out of range [symbolic:%d]", h))
			}
		}
		l = int(in.concreteInt(lo, "slice low"))
		if l < 0 || l > h {
			in.runtimePanic(fmt.Sprintf("slice bounds out of range [%d:%d]", l, h))
		}
	}
	return l, h
}

var growCache = map[[5]int]int{}

func hasPointers(t types.Type) bool {
	switch t := t.Underlying().(type) {
	case *types.Basic:
		return t.Info()&types.IsString != 0 || t.Kind() == types.UnsafePointer
	case *types.Array:
		return t.Len() > 0 && hasPointers(t.Elem())
	case *types.Struct:
		for i := 0; i < t.NumFields(); i++ {
			if hasPointers(t.Field(i).Type()) {
				return true
			}
		}
		return false
	}
	return true
}

// growCap asks the real runtime (same toolchain as the repo's tests) for the capacity after append.
func (w *Worker) growCap(oldLen, oldCap, num int, size int64, ptr bool) int {
	p := 0
	if ptr {
		p = 1
	}
	key := [5]int{oldLen, oldCap, num, int(size), p}
	w.eng.growMu.Lock()
	defer w.eng.growMu.Unlock()
	if c, ok := growCache[key]; ok {
		return c
	}
	var et reflect.Type
	switch {
	case size == 0:
		et = reflect.TypeOf(struct{}{})
	case ptr && size%8 == 0:
		et = reflect.ArrayOf(int(size/8), reflect.TypeOf((*byte)(nil)))
	default:
		et = reflect.ArrayOf(int(size), reflect.TypeOf(byte(0)))
	}
	s := reflect.MakeSlice(reflect.SliceOf(et), oldLen, oldCap)
	add := reflect.MakeSlice(reflect.SliceOf(et), num, num)
	r := reflect.AppendSlice(s, add)
	growCache[key] = r.Cap()
	return r.Cap()
}

func (in *Interp) appendVals(s Slice, add []Value, et types.Type) Slice {
	if len(add) == 0 {
		return s
	}
	n := len(s.v) + len(add)
	if n <= cap(s.v) {
		// the source may overlap the spare capacity it is appended into (l = append(l[:i+1],
		// l[i:]...)): Go's append has memmove semantics, so take the values first
		tmp := make([]Value, len(add))
		for i, a := range add {
			tmp[i] = copyVal(a)
		}
		r := s.v[:n]
		copy(r[len(s.v):], tmp)
		return Slice{v: r}
	}
	nc := in.w.growCap(len(s.v), cap(s.v), len(add), in.sizes.Sizeof(et), hasPointers(et))
	nv := make([]Value, nc)
	copy(nv, s.v)
	for i, a := range add {
		nv[len(s.v)+i] = copyVal(a)
	}
	for i := n; i < nc; i++ {
		nv[i] = in.zero(et)
	}
	return Slice{v: nv[:n]}
}

func (in *Interp) builtin(b *ssa.Builtin, c *ssa.CallCommon, args []Value) Value {
	tt := in.tt
	switch b.Name() {
	case "append":
		s := args[0].(Slice)
		et := c.Args[0].Type().Underlying().(*types.Slice).Elem()
		switch a := args[1].(type) {
		case Slice:
			return in.appendVals(s, a.v, et)
		case Str:
			add := make([]Value, len(a.elems))
			for i, e := range a.elems {
				if e.tok != nil {
					add[i] = e.tok
				} else {
					add[i] = e.b
				}
			}
			return in.appendVals(s, add, et)
		}
		panic(fmt.Sprintf("append of %T", args[1]))
	case "copy":
		dst := args[0].(Slice)
		var src []Value
		switch a := args[1].(type) {
		case Slice:
			src = a.v
		case Str:
			src = make([]Value, len(a.elems))
			for i, e := range a.elems {
				if e.tok != nil {
					src[i] = e.tok
				} else {
					src[i] = e.b
				}
			}
		}
		n := len(dst.v)
		if len(src) < n {
			n = len(src)
		}
		tmp := make([]Value, n)
		for i := 0; i < n; i++ {
			tmp[i] = copyVal(src[i])
		}
		copy(dst.v, tmp)
		return tt.BV(64, uint64(n))
	case "len":
		switch a := args[0].(type) {
		case Str:
			return in.strLen(a)
		case Slice:
			return tt.BV(64, uint64(len(a.v)))
		case MapRef:
			if a.m == nil {
				return tt.BV(64, 0)
			}
			return tt.BV(64, uint64(len(a.m.ents)))
		case Array:
			return tt.BV(64, uint64(len(a)))
		case Ptr:
			return tt.BV(64, uint64(len((*a.p).(Array))))
		}
		panic(fmt.Sprintf("len of %T", args[0]))
	case "cap":
		switch a := args[0].(type) {
		case Slice:
			return tt.BV(64, uint64(cap(a.v)))
		case Array:
			return tt.BV(64, uint64(len(a)))
		}
		panic(fmt.Sprintf("cap of %T", args[0]))
	case "delete":
		m := args[0].(MapRef)
		if m.m != nil {
			in.mapDelete(m.m, args[1])
		}
		return nil
	case "min", "max":
		r := args[0].(*Term)
		signed := isSigned(c.Args[0].Type())
		for _, a := range args[1:] {
			x := a.(*Term)
			var lt *Term
			if x.w == SortFP {
				panic(unsupported("min/max on floats"))
			}
			if signed {
				lt = tt.Slt(x, r)
			} else {
				lt = tt.Ult(x, r)
			}
			if b.Name() == "max" {
				lt = tt.Not(tt.Or(lt, tt.Eq(x, r)))
			}
			r = tt.Ite(lt, x, r)
		}
		return r
	case "print", "println":
		return nil
	case "ssa:wrapnilchk":
		p := args[0].(Ptr)
		if p.p == nil {
			in.runtimePanic("value method called via nil pointer")
		}
		return args[0]
	}
	panic(unsupported("builtin " + b.Name()))
}

func (in *Interp) strLen(a Str) *Term {
	tt := in.tt
	n := 0
	var sum *Term
	for _, e := range a.elems {
		if e.tok != nil {
			l := in.tokLen(e.tok)
			if sum == nil {
				sum = l
			} else {
				sum = tt.Add(sum, l)
			}
		} else {
			n++
		}
	}
	if sum == nil {
		return tt.BV(64, uint64(n))
	}
	return tt.Add(sum, tt.BV(64, uint64(n)))
}

// ---- maps ----

type mapEnt struct {
	k, v    Value
	deleted bool
}

func (in *Interp) mapFind(m *MapObj, key Value) *mapEnt {
	for _, e := range m.ents {
		if in.path.Branch(in.eqValue(e.k, key)) {
			return e
		}
	}
	return nil
}

func (in *Interp) mapSet(m *MapObj, key, val Value) {
	if e := in.mapFind(m, key); e != nil {
		e.v = val
		return
	}
	m.ents = append(m.ents, &mapEnt{k: copyVal(key), v: val})
}

func (in *Interp) mapDelete(m *MapObj, key Value) {
	for i, e := range m.ents {
		if in.path.Branch(in.eqValue(e.k, key)) {
			e.deleted = true
			m.ents = append(m.ents[:i:i], m.ents[i+1:]...)
			return
		}
	}
}

func (in *Interp) rangeIter(x Value) *MapIter {
	switch x := x.(type) {
	case MapRef:
		it := &MapIter{}
		if x.m != nil {
			ents := append([]*mapEnt(nil), x.m.ents...)
			if in.path.mapOrder && len(ents) > 1 {
				ents = in.permute(ents)
			} else if in.path.mapReverse {
				for i, j := 0, len(ents)-1; i < j; i, j = i+1, j-1 {
					ents[i], ents[j] = ents[j], ents[i]
				}
			}
			it.ents = ents
		}
		return it
	case Str:
		return &MapIter{str: &x}
	}
	panic(fmt.Sprintf("range over %T", x))
}

func (in *Interp) permute(ents []*mapEnt) []*mapEnt {
	n := len(ents)
	if n > 4 {
		panic(unsupported("map-order nondeterminism over more than 4 entries"))
	}
	rest := append([]*mapEnt(nil), ents...)
	var out []*mapEnt
	for len(rest) > 0 {
		i := in.path.Choice(len(rest))
		out = append(out, rest[i])
		rest = append(rest[:i:i], rest[i+1:]...)
	}
	return out
}

func (in *Interp) next(it *MapIter, isString bool) Value {
	tt := in.tt
	if it.str != nil {
		s := it.str.elems
		if it.pos >= len(s) {
			return Tuple{tt.F, tt.BV(64, 0), tt.BV(32, 0)}
		}
		start := it.pos
		e := s[start]
		if e.tok != nil {
			panic(unsupported("range over string holding codec token"))
		}
		if !e.b.IsConst() {
			// symbolic byte: only ASCII is followed
			if !in.path.Branch(tt.Ult(e.b, tt.BV(8, 0x80))) {
				panic(unsupported("non-ASCII symbolic byte in range over string"))
			}
			it.pos++
			return Tuple{tt.T, tt.BV(64, uint64(start)), tt.Zext(e.b, 32)}
		}
		// concrete run: decode UTF-8
		var buf []byte
		for j := start; j < len(s) && j < start+4; j++ {
			if s[j].tok != nil || !s[j].b.IsConst() {
				break
			}
			buf = append(buf, byte(s[j].b.val))
		}
		r, size := utf8.DecodeRune(buf)
		if r == utf8.RuneError && size <= 1 && len(buf) < 4 && start+len(buf) < len(s) && buf[0] >= 0x80 {
			panic(unsupported("UTF-8 sequence mixing concrete and symbolic bytes"))
		}
		it.pos += size
		return Tuple{tt.T, tt.BV(64, uint64(start)), tt.BV(32, uint64(r))}
	}
	for it.pos < len(it.ents) {
		e := it.ents[it.pos]
		it.pos++
		if e.deleted {
			continue
		}
		return Tuple{tt.T, copyVal(e.k), copyVal(e.v)}
	}
	return Tuple{tt.F, nil, nil}
}

// describe renders a value for messages.
func (in *Interp) describe(v Value) string {
	switch v := v.(type) {
	case Iface:
		if v.t == nil {
			return "nil"
		}
		return typeString(v.t) + "(" + in.describe(v.v) + ")"
	case Str:
		return v.String()
	case *Term:
		return v.SMT()
	case Ptr:
		if v.p == nil {
			return "nil"
		}
		if e, ok := (*v.p).(*ErrVal); ok {
			return "error(" + e.msg.String() + ")"
		}
		return "&" + in.describe(*v.p)
	case Struct:
		return "struct"
	}
	return fmt.Sprintf("%T", v)
}
