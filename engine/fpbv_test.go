package main

import (
	"math"
	"math/rand"
	"testing"
)

func TestFpBvEncodings(t *testing.T) {
	tt := NewTermTable()
	vals := []float64{0, math.Copysign(0, -1), 0.5, -0.5, 1, -1, 1.5, -1.5, 2, 3.999, 4503599627370496, 4503599627370497, 9007199254740992, 9007199254740993,
		9223372036854775807, 9223372036854775808, -9223372036854775808, -9223372036854777856, 1e19, -1e19, 1e300, -1e300, 5e-324, math.Inf(1), math.Inf(-1), math.NaN(),
		4611686018427387904, 9223372036854774784, 1e15 + 0.5, 123456789.75}
	r := rand.New(rand.NewSource(1))
	for i := 0; i < 200000; i++ {
		vals = append(vals, math.Float64frombits(r.Uint64()))
		// numbers around the interesting exponents
		e := uint64(1023 + r.Intn(70) - 2)
		vals = append(vals, math.Float64frombits(uint64(r.Intn(2))<<63|e<<52|r.Uint64()&fpMantMsk))
	}
	for _, f := range vals {
		b := tt.BV(64, math.Float64bits(f))
		tr := tt.bvTruncBits(b)
		if !tr.IsConst() {
			t.Fatalf("trunc not folded for %v", f)
		}
		want := math.Float64bits(math.Trunc(f))
		if tr.val != want && !(math.IsNaN(f)) {
			t.Fatalf("trunc(%v): got %x want %x", f, tr.val, want)
		}
		si := tt.bvToSInt(b)
		var wi int64
		if math.IsNaN(f) || f >= 9223372036854775808.0 || f < -9223372036854775808.0 {
			wi = math.MinInt64
		} else {
			wi = int64(f)
		}
		if !si.IsConst() || int64(si.val) != wi {
			t.Fatalf("int64(%v): got %d want %d", f, int64(si.val), wi)
		}
		tt.sintSrc[si.id] = b
		fb, ok := tt.floatOfTruncated(si)
		if !ok || !fb.IsConst() || fb.val != math.Float64bits(float64(wi)) {
			t.Fatalf("float64(int64(%v)): got %x want %x", f, fb.val, math.Float64bits(float64(wi)))
		}
	}
}
