package main

// Pure bit-vector encodings of the float64 <-> int64 conversions and of math.Trunc, for
// operands given as IEEE bit patterns. The FP theory needs seconds (or does not finish) on
// round-trips such as float64(int64(x)) == x; these encodings are the algorithms the Go
// runtime / math package themselves use on the bits and bit-blast like any shift.

const (
	fpExpBias = 1023
	fpMantMsk = 0x000FFFFFFFFFFFFF
)

func (tt *TermTable) fpExpField(b *Term) *Term {
	return tt.Zext(tt.Extract(62, 52, b), 64)
}

// bvTruncBits: the bits of math.Trunc(x) given the bits of x (math.modf's algorithm).
// NaN and infinities are returned unchanged.
func (tt *TermTable) bvTruncBits(b *Term) *Term {
	e := tt.fpExpField(b)
	sh := tt.Sub(e, tt.BV(64, fpExpBias))
	mask := tt.BvOp(OLshr, tt.BV(64, fpMantMsk), sh)
	mid := tt.BvOp(OBvAnd, b, tt.BvNot(mask))
	return tt.Ite(tt.Ult(e, tt.BV(64, fpExpBias)), tt.BvOp(OBvAnd, b, tt.BV(64, 1<<63)),
		tt.Ite(tt.Ule(tt.BV(64, fpExpBias+52), e), b, mid))
}

// bvToSInt: int64(x) with amd64 CVTTSD2SQ semantics (NaN / out of range -> MinInt64).
func (tt *TermTable) bvToSInt(b *Term) *Term {
	e := tt.fpExpField(b)
	m := tt.BvOp(OBvOr, tt.BvOp(OBvAnd, b, tt.BV(64, fpMantMsk)), tt.BV(64, 1<<52))
	right := tt.BvOp(OLshr, m, tt.Sub(tt.BV(64, fpExpBias+52), e))
	left := tt.BvOp(OShl, m, tt.Sub(e, tt.BV(64, fpExpBias+52)))
	mag := tt.Ite(tt.Ult(e, tt.BV(64, fpExpBias)), tt.BV(64, 0), tt.Ite(tt.Ule(e, tt.BV(64, fpExpBias+52)), right, left))
	neg := tt.Eq(tt.Extract(63, 63, b), tt.BV(1, 1))
	r := tt.Ite(tt.Ule(tt.BV(64, fpExpBias+63), e), tt.BV(64, 1<<63), tt.Ite(neg, tt.Neg(mag), mag))
	if tt.sintSrc == nil {
		tt.sintSrc = map[int]*Term{}
	}
	if !r.IsConst() {
		tt.sintSrc[r.id] = b
	}
	return r
}

// floatOfTruncated: the bits of float64(int64(x)) for an int64 obtained by bvToSInt from the
// bits b: the truncation is an integer of at most 53 significant bits, so the conversion back
// is exact; out of range gives float64(MinInt64) = -2^63; a zero result is +0.
func (tt *TermTable) floatOfTruncated(i *Term) (*Term, bool) {
	b, ok := tt.sintSrc[i.id]
	if !ok {
		return nil, false
	}
	e := tt.fpExpField(b)
	t := tt.bvTruncBits(b)
	z := tt.Ite(tt.Eq(tt.BvOp(OShl, t, tt.BV(64, 1)), tt.BV(64, 0)), tt.BV(64, 0), t)
	return tt.Ite(tt.Ule(tt.BV(64, fpExpBias+63), e), tt.BV(64, 0xC3E0000000000000), z), true
}
