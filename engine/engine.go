package main

import (
	"encoding/json"
	"flag"
	"fmt"
	"math/rand"
	"os"
	"runtime/debug"
	"sort"
	"strings"
	"sync"
	"time"

	"go/types"

	"golang.org/x/tools/go/packages"
	"golang.org/x/tools/go/ssa"
	"golang.org/x/tools/go/ssa/ssautil"
)

type Engine struct {
	prog        *ssa.Program
	target      *ssa.Package
	targetPaths []string
	models      map[string]modelFn
	interp      map[string]bool
	allowGlobal map[string]bool
	noInit      map[string]bool
	growMu      sync.Mutex

	mu      sync.Mutex
	cond    *sync.Cond
	jobs    [][]Event
	idle    int
	nwork   int
	stop    bool
	maxViol int

	solverKind string
	timeoutMs  int
	known      map[string]bool
	seed       int64
	sampleN    int
	res        *EntryResult
	entry      *ssa.Function
	solverLog  string
	maxPaths   int
	params     map[string]int
}

type Worker struct {
	eng          *Engine
	id           int
	tt           *TermTable
	solver       *Solver
	solver2      *Solver
	solverPC     []*Term
	queries      int
	unknowns     int
	notes        map[string]int
	inconclusive map[string]int
	known        map[string]bool
	rng          *rand.Rand
	funcCov      map[string]bool
}

type Sample struct {
	Status  string   `json:"status"`
	Msg     string   `json:"msg,omitempty"`
	Inputs  []uint64 `json:"inputs"`
	Kinds   []string `json:"kinds"`
	Pretty  string   `json:"pretty"`
	Observe []ObsRec `json:"observe,omitempty"`
	Forks   int      `json:"sym_forks"`
	Site    string   `json:"site,omitempty"`
	Flags   []string `json:"flags,omitempty"`
}

type EntryResult struct {
	Entry        string         `json:"entry"`
	Paths        int            `json:"paths"`
	Status       map[string]int `json:"status"`
	Oblig        int            `json:"obligations"`
	Discharged   int            `json:"discharged"`
	Nontrivial   int            `json:"nontrivial_paths"`
	Transitions  int            `json:"transitions"`
	Queries      int            `json:"queries"`
	QSat         int            `json:"q_sat"`
	QUnsat       int            `json:"q_unsat"`
	QUnknown     int            `json:"q_unknown"`
	SolverTimeS  float64        `json:"solver_time_s"`
	WallS        float64        `json:"wall_s"`
	Covers       []string       `json:"covers"`
	Violations   []Sample       `json:"violations"`
	Samples      []Sample       `json:"samples"`
	Unsupported  map[string]int `json:"unsupported"`
	Inconclusive map[string]int `json:"inconclusive"`
	Notes        map[string]int `json:"notes"`
	Flags        map[string]int `json:"flags"`
	Functions    []string       `json:"functions_encoded"`
	Stopped      bool           `json:"stopped_early"`
	Steps        int64          `json:"steps"`
}

func (e *Engine) interpretPkg(path string) bool {
	if e.interp[path] {
		return true
	}
	return strings.HasPrefix(path, "github.com/josephburnett/jd")
}

type overlayFlag []string

func (o *overlayFlag) String() string     { return strings.Join(*o, ",") }
func (o *overlayFlag) Set(s string) error { *o = append(*o, s); return nil }

func main() {
	var overlays overlayFlag
	dir := flag.String("dir", "/repo/v2", "package directory")
	pattern := flag.String("pkg", ".", "package pattern")
	tags := flag.String("tags", "verif", "build tags")
	entries := flag.String("entry", "", "comma-separated harness entry functions")
	workers := flag.Int("workers", 16, "worker count")
	out := flag.String("out", "", "result JSON file")
	known := flag.String("known", "", "comma-separated active known-finding exclusions")
	shapesFile := flag.String("aliasshapes", "", "file listing the site/length shapes of the hash-alias finding (only these are assumed away)")
	recordFile := flag.String("recordshapes", "", "development: append the shapes at which the hash-alias exclusion fires to this file")
	solver := flag.String("solver", "z3", "primary solver")
	timeout := flag.Int("timeout", 10000, "per-query timeout ms")
	seed := flag.Int64("seed", 1, "seed for sampling")
	sampleN := flag.Int("samples", 10, "ok-paths to sample for native validation per entry")
	maxViol := flag.Int("maxviol", 3, "stop an entry after this many violations")
	solverLog := flag.String("solverlog", "", "write worker-0 solver dialogue to this file")
	maxPaths := flag.Int("maxpaths", 0, "stop after this many paths (0 = no limit; a limited run is inconclusive)")
	params := flag.String("params", "", "harness parameters name=int,...")
	flag.Var(&overlays, "overlay", "virtual=real overlay file (repeatable)")
	flag.Parse()
	if *shapesFile != "" {
		data, err := os.ReadFile(*shapesFile)
		if err != nil {
			fatal("aliasshapes: %v", err)
		}
		aliasShapes = map[string]bool{}
		for _, l := range strings.Split(string(data), "\n") {
			l = strings.TrimSpace(l)
			if l != "" && !strings.HasPrefix(l, "#") {
				aliasShapes[l] = true
			}
		}
	}
	if *recordFile != "" {
		recordShapes = map[string]bool{}
		defer func() {
			old, _ := os.ReadFile(*recordFile)
			for _, l := range strings.Split(string(old), "\n") {
				if l = strings.TrimSpace(l); l != "" {
					recordShapes[l] = true
				}
			}
			var ls []string
			for k := range recordShapes {
				ls = append(ls, k)
			}
			sort.Strings(ls)
			os.WriteFile(*recordFile, []byte(strings.Join(ls, "\n")+"\n"), 0644)
		}()
	}

	t0 := time.Now()
	ov := map[string][]byte{}
	for _, o := range overlays {
		kv := strings.SplitN(o, "=", 2)
		b, err := os.ReadFile(kv[1])
		if err != nil {
			fatal("overlay: %v", err)
		}
		ov[kv[0]] = b
	}
	cfg := &packages.Config{Mode: packages.LoadAllSyntax, Dir: *dir, Overlay: ov, BuildFlags: []string{"-tags=" + *tags}}
	pkgs, err := packages.Load(cfg, *pattern)
	if err != nil {
		fatal("load: %v", err)
	}
	if packages.PrintErrors(pkgs) > 0 {
		fatal("package errors")
	}
	prog, spkgs := ssautil.AllPackages(pkgs, ssa.InstantiateGenerics)
	prog.Build()
	eng := &Engine{prog: prog, target: spkgs[0], models: map[string]modelFn{}, interp: map[string]bool{}, allowGlobal: map[string]bool{},
		solverKind: *solver, timeoutMs: *timeout, known: map[string]bool{}, seed: *seed, sampleN: *sampleN, maxViol: *maxViol, solverLog: *solverLog, maxPaths: *maxPaths}
	eng.cond = sync.NewCond(&eng.mu)
	for _, p := range []string{"github.com/yudai/golcs", "slices", "golang.org/x/exp/slices", "cmp", "math/bits", "unicode/utf8", "github.com/go-openapi/jsonpointer"} {
		eng.interp[p] = true
	}
	// interpreted, but the package initialiser is not run (only constant-using functions are reached)
	eng.noInit = map[string]bool{"github.com/go-openapi/jsonpointer": true}
	for _, g := range []string{"encoding/binary.LittleEndian", "encoding/binary.BigEndian", "os.Stdin", "os.Args", "github.com/josephburnett/jd/v2/web/serve.Handle"} {
		eng.allowGlobal[g] = true
	}
	for _, sp := range spkgs {
		eng.targetPaths = append(eng.targetPaths, sp.Pkg.Path())
	}
	for _, k := range strings.Split(*known, ",") {
		if k != "" {
			eng.known[k] = true
		}
	}
	eng.params = map[string]int{}
	for _, kv := range strings.Split(*params, ",") {
		if kv == "" {
			continue
		}
		p := strings.SplitN(kv, "=", 2)
		n := 0
		fmt.Sscanf(p[1], "%d", &n)
		eng.params[p[0]] = n
	}
	eng.registerModels()
	loadS := time.Since(t0).Seconds()

	var results []*EntryResult
	for _, en := range strings.Split(*entries, ",") {
		if en == "" {
			continue
		}
		fn := eng.target.Func(en)
		if fn == nil {
			fatal("no entry function %s in %s", en, eng.target.Pkg.Path())
		}
		results = append(results, eng.runEntry(fn, *workers))
	}
	outv := map[string]interface{}{"load_s": loadS, "entries": results, "package": eng.target.Pkg.Path(), "solver": *solver}
	b, _ := json.MarshalIndent(outv, "", " ")
	if *out != "" {
		os.WriteFile(*out, b, 0644)
	} else {
		os.Stdout.Write(b)
	}
	for _, r := range results {
		fmt.Fprintf(os.Stderr, "%s: paths=%d status=%v oblig=%d/%d queries=%d (unknown %d) viol=%d wall=%.1fs solver=%.1fs\n",
			r.Entry, r.Paths, r.Status, r.Discharged, r.Oblig, r.Queries, r.QUnknown, len(r.Violations), r.WallS, r.SolverTimeS)
		for k, v := range r.Unsupported {
			fmt.Fprintf(os.Stderr, "   unsupported x%d: %s\n", v, k)
		}
		for k, v := range r.Inconclusive {
			fmt.Fprintf(os.Stderr, "   inconclusive x%d: %s\n", v, k)
		}
	}
}

func fatal(f string, a ...interface{}) {
	fmt.Fprintf(os.Stderr, "gosym: "+f+"\n", a...)
	os.Exit(2)
}

func (e *Engine) runEntry(fn *ssa.Function, nworkers int) *EntryResult {
	t0 := time.Now()
	res := &EntryResult{Entry: fn.Name(), Status: map[string]int{}, Unsupported: map[string]int{}, Inconclusive: map[string]int{}, Notes: map[string]int{}, Flags: map[string]int{}}
	e.res = res
	e.entry = fn
	e.jobs = [][]Event{{}}
	e.idle = 0
	e.nwork = nworkers
	e.stop = false
	covers := map[string]bool{}
	funcs := map[string]bool{}
	var wg sync.WaitGroup
	var aggMu sync.Mutex
	var solverTime time.Duration
	for i := 0; i < nworkers; i++ {
		wg.Add(1)
		go func(id int) {
			defer wg.Done()
			w := &Worker{eng: e, id: id, tt: NewTermTable(), notes: map[string]int{}, inconclusive: map[string]int{}, known: e.known,
				rng: rand.New(rand.NewSource(e.seed*1000 + int64(id))), funcCov: map[string]bool{}}
			var err error
			w.solver, err = NewSolver(e.solverKind, e.timeoutMs)
			if err != nil {
				fatal("solver: %v", err)
			}
			if id == 0 && e.solverLog != "" {
				f, _ := os.Create(e.solverLog)
				w.solver.log = f
				defer f.Close()
			}
			alt := "cvc5"
			if e.solverKind == "cvc5" {
				alt = "z3"
			}
			w.solver2, err = NewSolver(alt, e.timeoutMs)
			if err != nil {
				w.solver2 = nil
			}
			for {
				job := e.getJob()
				if job == nil {
					break
				}
				w.explore(job, covers, &aggMu)
			}
			aggMu.Lock()
			res.Queries += w.queries
			res.QSat += w.solver.nSat
			res.QUnsat += w.solver.nUnsat
			res.QUnknown += w.unknowns
			solverTime += w.solver.solveTime
			if w.solver2 != nil {
				solverTime += w.solver2.solveTime
			}
			for k, v := range w.notes {
				res.Notes[k] += v
			}
			for k, v := range w.inconclusive {
				res.Inconclusive[k] += v
			}
			for k := range w.funcCov {
				funcs[k] = true
			}
			aggMu.Unlock()
			w.solver.Close()
			if w.solver2 != nil {
				w.solver2.Close()
			}
		}(i)
	}
	wg.Wait()
	for c := range covers {
		res.Covers = append(res.Covers, c)
	}
	sort.Strings(res.Covers)
	for f := range funcs {
		res.Functions = append(res.Functions, f)
	}
	sort.Strings(res.Functions)
	if res.Status["unreal"] > 0 && len(res.Violations) == 0 {
		res.Inconclusive["assertion fails only under the idealised hash (no realisation with the real FNV-1a found)"] += res.Status["unreal"]
	}
	res.SolverTimeS = solverTime.Seconds()
	res.WallS = time.Since(t0).Seconds()
	res.Stopped = e.stop
	return res
}

func (e *Engine) getJob() []Event {
	e.mu.Lock()
	defer e.mu.Unlock()
	e.idle++
	for {
		if e.stop {
			e.cond.Broadcast()
			return nil
		}
		if len(e.jobs) > 0 {
			j := e.jobs[len(e.jobs)-1]
			e.jobs = e.jobs[:len(e.jobs)-1]
			e.idle--
			return j
		}
		if e.idle == e.nwork {
			e.cond.Broadcast()
			return nil
		}
		e.cond.Wait()
	}
}

func (e *Engine) wantWork() bool {
	e.mu.Lock()
	defer e.mu.Unlock()
	return e.idle > 0 && len(e.jobs) < e.idle
}

func (e *Engine) addJob(j []Event) {
	e.mu.Lock()
	e.jobs = append(e.jobs, j)
	e.mu.Unlock()
	e.cond.Signal()
}

func (w *Worker) explore(prefix []Event, covers map[string]bool, aggMu *sync.Mutex) {
	e := w.eng
	log := prefix
	fixed := len(prefix)
	for log != nil {
		if e.stop {
			return
		}
		p := w.newPath(log)
		end, in := w.runPath(p)
		log = p.log
		// aggregate
		aggMu.Lock()
		res := e.res
		res.Paths++
		res.Status[end.status]++
		res.Oblig += p.oblig
		res.Discharged += p.dischargd
		res.Transitions += len(p.log)
		res.Steps += int64(p.steps)
		if p.symForks > 0 {
			res.Nontrivial++
		}
		for c := range p.covers {
			covers[c] = true
		}
		for f := range p.flags {
			res.Flags[f]++
		}
		switch end.status {
		case "unsupported", "budget", "engine-error":
			res.Unsupported[end.status+": "+end.msg]++
		}
		npaths := res.Paths
		aggMu.Unlock()
		if e.maxPaths > 0 && npaths >= e.maxPaths {
			e.mu.Lock()
			e.stop = true
			e.mu.Unlock()
			e.cond.Broadcast()
			aggMu.Lock()
			res.Inconclusive["path limit reached"]++
			aggMu.Unlock()
		}
		if end.status == "violation" && !w.realisable(p) {
			// the counterexample exists only under the idealised hash (order / value of the
			// codes): not reported, exploration continues; the run is inconclusive unless a
			// realisable violation is found
			aggMu.Lock()
			res.Status["violation"]--
			res.Status["unreal"]++
			aggMu.Unlock()
			end.status = "unreal"
		}
		if end.status == "violation" {
			s := w.sample(p, in, end)
			aggMu.Lock()
			res.Violations = append(res.Violations, s)
			nv := len(res.Violations)
			aggMu.Unlock()
			if nv >= e.maxViol {
				e.mu.Lock()
				e.stop = true
				e.mu.Unlock()
				e.cond.Broadcast()
			}
		} else if end.status == "ok" {
			// reservoir-free sampling: first few, then with small probability
			aggMu.Lock()
			take := len(res.Samples) < e.sampleN && (e.sampleN >= 1000 || res.Paths <= 3 || w.rng.Intn(20) == 0 || p.symForks > 3 && w.rng.Intn(4) == 0)
			aggMu.Unlock()
			if take {
				s := w.sample(p, in, end)
				aggMu.Lock()
				if len(res.Samples) < e.sampleN {
					res.Samples = append(res.Samples, s)
				}
				aggMu.Unlock()
			}
		}
		if e.wantWork() {
			if nl, ok := splitShallowest(log, fixed); ok {
				e.addJob(nl)
			}
		}
		log = backtrack(log, fixed)
	}
}

func (w *Worker) realisable(p *Path) (ok bool) {
	defer func() {
		if r := recover(); r != nil {
			ok = true // let the native replay decide
		}
	}()
	return p.realise()
}

// sample concretises the inputs (and observations) of a finished path.
func (w *Worker) sample(p *Path, in *Interp, end pathEnd) (s Sample) {
	s = Sample{Status: end.status, Msg: end.msg, Forks: p.symForks}
	for f := range p.flags {
		s.Flags = append(s.Flags, f)
	}
	defer func() {
		if r := recover(); r != nil {
			s.Msg += fmt.Sprintf(" [sample failed: %v]", r)
		}
	}()
	p.ensureModel()
	s.Inputs, s.Kinds = describeInputs(p.inputs, p.model)
	s.Pretty = fmtInputs(s.Inputs, s.Kinds)
	for _, o := range p.observes {
		s.Observe = append(s.Observe, ObsRec{Label: o.label, Text: in.renderObs(o.v, p.model)})
	}
	return s
}

func (w *Worker) runPath(p *Path) (end pathEnd, in *Interp) {
	e := w.eng
	in = &Interp{w: w, tt: w.tt, prog: e.prog, path: p, globals: map[*ssa.Global]*Value{}, sizes: types.SizesFor("gc", "amd64"), funcCov: w.funcCov}
	defer func() {
		r := recover()
		if r == nil {
			return
		}
		switch r := r.(type) {
		case pathEnd:
			end = r
		case progPanic:
			// a Go runtime panic in the code under test: feasible on this path by construction
			end = pathEnd{"violation", "panic: " + r.msg + " @ " + r.site}
		case unsupportedErr:
			end = pathEnd{"unsupported", r.msg + " @ " + in.where()}
		default:
			st := string(debug.Stack())
			// keep the interesting part of the stack
			lines := strings.Split(st, "\n")
			var keep []string
			for _, l := range lines {
				if strings.Contains(l, "/verif/engine/") {
					keep = append(keep, strings.TrimSpace(l))
				}
				if len(keep) >= 6 {
					break
				}
			}
			end = pathEnd{"engine-error", fmt.Sprintf("%v @ %s | %s", r, in.where(), strings.Join(keep, " | "))}
		}
	}()
	if init := e.target.Func("init"); init != nil {
		in.callFunction(init, nil, nil)
	}
	in.callFunction(e.entry, nil, nil)
	if p.pos != len(p.log) {
		panic(fmt.Sprintf("engine nondeterminism: %d replay events left", len(p.log)-p.pos))
	}
	return pathEnd{"ok", ""}, in
}
