package main

import (
	"golang.org/x/tools/go/ssa"
)

// Model of bufio.Scanner with the default ScanLines split over an in-memory reader
// (strings.NewReader / bytes.NewReader / bytes.NewBufferString): lines end at '\n', a trailing
// '\r' is dropped, an empty final line yields no token, and — like the real scanner — a line
// that does not fit the buffer (len(line)+1 > max token size, 64 KiB unless Buffer() raised it)
// ends the scan with ErrTooLong. Codec tokens (texts of symbolic values) count as shorter
// than the limit.

type readerState struct {
	elems []SElem
}

type scanState struct {
	rest   []SElem
	tok    []SElem
	err    Value // Iface
	done   bool
	maxTok int
}

func (in *Interp) readerElems(v Value) []SElem {
	if f, ok := v.(Iface); ok {
		v = f.v
	}
	p, ok := v.(Ptr)
	if !ok || p.p == nil {
		panic(unsupported("bufio.NewScanner over an unmodelled reader"))
	}
	switch r := (*p.p).(type) {
	case *readerState:
		return r.elems
	case *bufState:
		return r.elems
	}
	panic(unsupported("bufio.NewScanner over an unmodelled reader"))
}

func (e *Engine) registerScannerModels() {
	m := e.models
	m["strings.NewReader"] = func(in *Interp, fn *ssa.Function, a []Value) Value {
		slot := new(Value)
		*slot = &readerState{elems: append([]SElem(nil), a[0].(Str).elems...)}
		return Ptr{slot}
	}
	m["bytes.NewReader"] = func(in *Interp, fn *ssa.Function, a []Value) Value {
		slot := new(Value)
		*slot = &readerState{elems: elemsOfBytes(a[0].(Slice))}
		return Ptr{slot}
	}
	m["bufio.NewScanner"] = func(in *Interp, fn *ssa.Function, a []Value) Value {
		slot := new(Value)
		*slot = &scanState{rest: in.readerElems(a[0]), err: Iface{}, maxTok: 64 * 1024}
		return Ptr{slot}
	}
	st := func(v Value) *scanState { return (*v.(Ptr).p).(*scanState) }
	m["(*bufio.Scanner).Buffer"] = func(in *Interp, fn *ssa.Function, a []Value) Value {
		s := st(a[0])
		s.maxTok = int(in.concreteInt(a[2], "Scanner.Buffer max"))
		if c := len(a[1].(Slice).v); c > s.maxTok {
			s.maxTok = c
		}
		return nil
	}
	m["(*bufio.Scanner).Scan"] = func(in *Interp, fn *ssa.Function, a []Value) Value {
		s := st(a[0])
		tt := in.tt
		if s.done {
			return tt.F
		}
		isByte := func(e SElem, c byte) bool {
			if e.tok != nil {
				return false
			}
			if e.b.IsConst() {
				return byte(e.b.val) == c
			}
			return in.path.Branch(tt.Eq(e.b, tt.BV(8, uint64(c))))
		}
		if len(s.rest) == 0 {
			s.done = true
			s.tok = nil
			return tt.F
		}
		n := 0 // bytes of the line seen so far (tokens count as 0)
		for i, e := range s.rest {
			if isByte(e, '\n') {
				line := s.rest[:i]
				s.rest = s.rest[i+1:]
				if len(line) > 0 && isByte(line[len(line)-1], '\r') {
					line = line[:len(line)-1]
				}
				s.tok = line
				return tt.T
			}
			if e.tok == nil {
				n++
			}
			if n >= s.maxTok {
				// the buffer is full and holds no complete line
				s.done = true
				s.tok = nil
				s.err = in.newError(in.strConst("bufio.Scanner: token too long"))
				return tt.F
			}
		}
		// final line without newline
		line := s.rest
		s.rest = nil
		if len(line) > 0 && isByte(line[len(line)-1], '\r') {
			line = line[:len(line)-1]
		}
		s.tok = line
		return tt.T
	}
	m["(*bufio.Scanner).Text"] = func(in *Interp, fn *ssa.Function, a []Value) Value {
		return Str{elems: append([]SElem(nil), st(a[0]).tok...)}
	}
	m["(*bufio.Scanner).Bytes"] = func(in *Interp, fn *ssa.Function, a []Value) Value {
		return bytesOfElems(st(a[0]).tok)
	}
	m["(*bufio.Scanner).Err"] = func(in *Interp, fn *ssa.Function, a []Value) Value {
		return st(a[0]).err
	}
}
