#!/bin/bash
# dev helper: run entries of the lib harness
ov=""
for f in /verif/harness/lib/*.go; do b=$(basename $f); case $b in *_test.go) continue;; esac; ov="$ov -overlay /repo/lib/zz_verif_$b=$f"; done
exec /verif/bin/gosym -dir /repo/lib $ov "$@"
