#!/bin/bash
# fullval.sh [ids...]: quick tier of each property with every explored path replayed natively
# (VERIF_SAMPLES=100000) instead of a sample; evidence goes to a scratch directory.
cd /verif
ids=${@:-C01 C02 C03 C04 C05 C06 C07 C08 C09 C10 C11 C12 C13 C14 C15 C17 C18}
for id in $ids; do
  out=$(mktemp -d /tmp/fullval_XXXX)
  s=$(date +%s)
  VERIF_SAMPLES=100000 VERIF_OUT=$out timeout 7200 ./verif check $id > /tmp/fullval_$id.log 2>&1; rc=$?
  echo "FULLVAL $id exit=$rc wall=$(( $(date +%s)-s ))s broken=$(grep -c '^BROKEN' /tmp/fullval_$id.log) $(grep -v '^KNOWN' /tmp/fullval_$id.log | tail -1 | cut -c1-200)"
  rm -rf $out
done
