//go:build verif

package jd

import (
	"encoding/json"
	"strconv"
)

func init() {
	vHarnesses["VerifC10Own"] = VerifC10Own
	vHarnesses["VerifC10Ops"] = VerifC10Ops
	vHarnesses["VerifC10ObjOps"] = VerifC10ObjOps
	vHarnesses["VerifC10Canary"] = VerifC10Canary
}

// VerifC10Own: jd's own JSON Patch output, read back and applied to a, reproduces b.
func VerifC10Own() {
	a, b := vC09Docs()
	if vKnown("hash.alias") {
		vAssumeNoHashAlias(a, b)
	}
	s, err := a.Diff(b).RenderPatch()
	vAssume(err == nil)
	d2, err := ReadPatchString(s)
	vAssert(err == nil, "ReadPatchString rejected jd's own JSON Patch output")
	p, err := vClone(a).Patch(d2)
	vAssert(err == nil, "jd's own JSON Patch output, read back, does not apply to a")
	vAssert(refEq(p, b, modeList, 0), "jd's own JSON Patch output, read back and applied to a, does not give b")
	vCover("c10.own")
}

// VerifC10Ops: arbitrary short sequences of test/remove/add operations on array positions:
// whenever jd reads the patch and applies it, the RFC 6902 evaluation succeeds with the same result.
func VerifC10Ops() {
	k := 1 + vChoice(vParam("OPS", 3))
	n := vChoice(vParam("N", 2) + 1)
	c := make(jsonArray, n)
	for i := range c {
		c[i] = vNum()
	}
	prefix := ""
	var doc JsonNode = c
	wrapped := false
	if vChoice(vParam("WRAPS", 2)) == 1 {
		prefix = "/a"
		doc = jsonObject{"a": c, "z": vNum()}
		wrapped = true
	}
	ops := make([]patchElement, k)
	ref := make([]refPatchOp, k)
	for j := range ops {
		kind := [...]string{"test", "remove", "add"}[vChoice(3)]
		i := vInt(-1, vParam("MAXIDX", 3))
		tok := "-"
		if i >= 0 {
			tok = strconv.Itoa(i)
			if vParam("SPELL", 0) == 1 {
				// spellings that RFC 6901 does not accept as array indices
				tok = [...]string{"", "0", "+", "-", "00"}[vChoice(5)] + tok
			}
		}
		v := vF64()
		path := prefix + "/" + tok
		if wrapped && vParam("ZOPS", 1) == 1 && vChoice(3) == 2 {
			path = "/z" // an operation on the scalar member next to the array
		}
		ops[j] = patchElement{Op: kind, Path: path, Value: v}
		ref[j] = refPatchOp{op: kind, path: path, value: jsonNumber(v), has: true}
	}
	text, _ := json.Marshal(ops)
	vObserve("patch", string(text))
	d, err := ReadPatchString(string(text))
	if err != nil {
		vCover("c10.ops.rejected")
		return // stricter is allowed
	}
	p, err := vClone(doc).Patch(d)
	if err != nil {
		vCover("c10.ops.notapplied")
		return
	}
	r, ok := ref6902(doc, ref)
	vObserve("result", p.Json())
	vAssert(r != nil && ok, "jd read and applied a JSON Patch that fails under RFC 6902")
	if r != nil {
		vAssert(refEq(p, r, modeList, 0), "jd applied a JSON Patch with a result other than the RFC 6902 result")
	}
	vCover("c10.ops.applied")
}

// VerifC10ObjOps: short sequences of test/remove/add operations on object members, nested
// members and members below a missing parent, against objects whose members may be absent.
func VerifC10ObjOps() {
	k := 1 + vChoice(vParam("OPS", 3))
	inner := jsonObject{}
	if vChoice(2) == 1 {
		inner["k"] = vNum()
	}
	doc := jsonObject{"m": inner}
	if vChoice(2) == 1 {
		doc["k"] = vNum()
	}
	if vChoice(2) == 1 {
		doc["a/b"] = vNum()
	}
	if vParam("ARR", 0) == 1 {
		// an array member holding a number and an object: '-' and indices inside longer pointers
		doc["r"] = jsonArray{vNum(), jsonObject{"k": vNum()}}
	}
	paths := [...]string{"/k", "/m/k", "/a~1b", "/q/k", "/m", "", "/r/-", "/r/-/k", "/r/1/k", "/r/-/0", "/r/2/k", "/m/-"}
	ops := make([]patchElement, k)
	ref := make([]refPatchOp, k)
	for j := range ops {
		kind := [...]string{"test", "remove", "add"}[vChoice(3)]
		path := paths[vChoice(vParam("PATHS", 6))]
		var v interface{} = vF64()
		var vn JsonNode = jsonNumber(v.(float64))
		if vParam("OBJVALS", 1) == 1 && vChoice(3) == 2 {
			v, vn = map[string]interface{}{}, jsonObject{}
		}
		ops[j] = patchElement{Op: kind, Path: path, Value: v}
		ref[j] = refPatchOp{op: kind, path: path, value: vn, has: true}
	}
	text, _ := json.Marshal(ops)
	vObserve("patch", string(text))
	d, err := ReadPatchString(string(text))
	if err != nil {
		vCover("c10.objops.rejected")
		return // stricter is allowed
	}
	p, err := vClone(doc).Patch(d)
	if err != nil {
		vCover("c10.objops.notapplied")
		return
	}
	r, ok := ref6902(doc, ref)
	vObserve("result", p.Json())
	vAssert(r != nil && ok, "jd read and applied a JSON Patch on object members that fails under RFC 6902")
	if r != nil {
		vAssert(refEq(p, r, modeList, 0), "jd applied a JSON Patch on object members with a result other than the RFC 6902 result")
	}
	vCover("c10.objops.applied")
}

// VerifC10Canary must be violated.
func VerifC10Canary() {
	d, err := ReadPatchString(`[{"op":"add","path":"/0","value":1}]`)
	vAssert(err != nil || len(d) == 0, "canary: add operations are never read")
	_ = vNum()
}
