//go:build verif

package jd

func init() {
	vHarnesses["VerifC06Flat"] = VerifC06Flat
	vHarnesses["VerifC06Recurse"] = VerifC06Recurse
	vHarnesses["VerifC06Canary"] = VerifC06Canary
}

func vMax(a, b int) int { return vIte(a > b, a, b) }

// refLCS: textbook DP over structural equality; branch-free (ite terms).
func refLCS(a, b []JsonNode) int {
	n, m := len(a), len(b)
	L := make([][]int, n+1)
	for i := range L {
		L[i] = make([]int, m+1)
	}
	for i := n - 1; i >= 0; i-- {
		for j := m - 1; j >= 0; j-- {
			eq := refEq(a[i], b[j], modeList, 0)
			L[i][j] = vIte(eq, 1+L[i+1][j+1], vMax(L[i+1][j], L[i][j+1]))
		}
	}
	return L[0][0]
}

// vC06Check: minimality and context of the list diff of two arrays of scalars, possibly nested.
func vC06Check(a, b jsonArray, how int) {
	d := vWrap(a, how).Diff(vWrap(b, how))
	vObserve("diff", d.Render())
	lcs := refLCS(a, b)
	rm, ad := 0, 0
	cur := []JsonNode(vClone(a).(jsonArray))
	plen := [...]int{1, 2, 2, 3}[how]
	for _, h := range d {
		vAssert(len(h.Path) == plen, "hunk of a flat array diff does not address an array position")
		idx, isIdx := h.Path[len(h.Path)-1].(PathIndex)
		vAssert(isIdx, "hunk of a flat array diff does not end in an index")
		rm += len(h.Remove)
		ad += len(h.Add)
		vAssert(len(h.Before) == 1, "hunk does not carry exactly one line of before-context")
		vAssert(len(h.After) == 1, "hunk does not carry exactly one line of after-context")
		// context equals the neighbours in the document as patched so far (reference semantics)
		ok, next := refListHunk(cur, int(idx), h.Before, h.Remove, h.Add, h.After)
		vAssert(ok, "hunk context/removals do not match the neighbouring elements")
		// marker exactly at the boundary
		vAssert(isVoid(h.Before[0]) == (int(idx) == 0), "before-context is the boundary marker iff the edit is at the start")
		vAssert(isVoid(h.After[0]) == (int(idx)+len(h.Remove) == len(cur)), "after-context is the boundary marker iff the edit reaches the end")
		cur = next
	}
	vAssert(rm == len(a)-lcs, "more (or fewer) elements removed than an LCS edit script removes")
	vAssert(ad == len(b)-lcs, "more (or fewer) elements added than an LCS edit script adds")
	vAssert(refEq(jsonArray(cur), b, modeList, 0), "folding the hunks over a does not give b")
}

// VerifC06Flat: arrays of numbers at the root / under a key / inside an array.
func VerifC06Flat() {
	n := vParam("N", 3)
	m := vParam("M", n)
	how := [...]int{0, 1, 2, 3}[vChoice(vParam("WRAPS", 2))]
	var a, b jsonArray
	if vParam("EXACT", 0) != 1 {
		a, b = vNumArray(n), vNumArray(m)
	} else {
		// exactly N and M elements (the longer arrays without paying for all shorter ones)
		a, b = make(jsonArray, n), make(jsonArray, m)
		for i := range a {
			if vParam("CONCA", 0) == 1 {
				continue
			}
			a[i] = vNum()
		}
		if vParam("CONCA", 0) == 1 {
			// a is one of a few fixed repeat patterns; every relation of b's elements to
			// them (and to each other) stays symbolic
			pat := [...][5]float64{{1, 2, 3, 4, 5}, {1, 1, 2, 2, 1}, {1, 2, 1, 2, 1}, {1, 1, 1, 1, 1}}[vChoice(4)]
			for i := range a {
				a[i] = jsonNumber(pat[i%5])
			}
		}
		for i := range b {
			b[i] = vNum()
		}
	}
	if vKnown("hash.alias") {
		vAssumeNoHashAlias(a, b)
	}
	vC06Check(a, b, how)
	vCover("c06.flat." + [...]string{"root", "key", "index", "key-in-array"}[how])
}

// VerifC06Recurse: equal-length arrays that differ only at one position holding containers
// of the same kind: the diff recurses into that position.
func VerifC06Recurse() {
	n := 1 + vChoice(vParam("N", 3))
	p := vChoice(n)
	a, b := make(jsonArray, n), make(jsonArray, n)
	// the other positions hold numbers that may or may not change; all numbers are pairwise
	// different, so the only common elements are the unchanged positions and "same position"
	// is unambiguous
	var seen []float64
	fresh := func() JsonNode {
		f := vF64()
		for _, g := range seen {
			vAssume(f != g)
		}
		seen = append(seen, f)
		return jsonNumber(f)
	}
	for i := range a {
		if i == p {
			continue
		}
		x := fresh()
		a[i], b[i] = x, x
		if vChoice(2) == 1 {
			b[i] = fresh()
		}
	}
	x, y := vF64(), vF64()
	vAssume(x != y)
	switch vChoice(3 + 4*vParam("EMPTIES", 0)) {
	case 0:
		a[p], b[p] = jsonObject{"k": jsonNumber(x)}, jsonObject{"k": jsonNumber(y)}
	case 1:
		a[p], b[p] = jsonArray{jsonNumber(x)}, jsonArray{jsonNumber(y)}
	case 3: // a container that is emptied / filled
		a[p], b[p] = jsonArray{jsonNumber(x), jsonNumber(y)}, jsonArray{}
	case 4:
		a[p], b[p] = jsonArray{}, jsonArray{jsonNumber(x)}
	case 5:
		a[p], b[p] = jsonObject{"k": jsonNumber(x)}, jsonObject{}
	case 6:
		a[p], b[p] = jsonObject{}, jsonObject{"k": jsonNumber(x)}
	default:
		a[p], b[p] = jsonObject{"k": jsonNumber(x)}, jsonObject{"j": jsonNumber(y)}
	}
	if vKnown("hash.alias") {
		vAssumeNoHashAlias(a, b)
	}
	var opts []Option
	eps := 0.0
	if vParam("PREC", 0) == 1 {
		// the same claims with a Precision option in force (numbers within eps are equal:
		// then the container need not be descended into, but whatever hunks there are must
		// still carry the right context)
		eps = vF64()
		vAssume(eps >= 0)
		opts = []Option{Precision(eps)}
	}
	d := a.Diff(b, opts...)
	vObserve("diff", d.Render())
	if !refEq(a, b, modeList, eps) {
		vAssert(len(d) > 0, "different documents give an empty diff")
	}
	descended := false
	cur := []JsonNode(vClone(a).(jsonArray))
	for _, h := range d {
		if len(h.Path) >= 2 {
			idx, isIdx := h.Path[0].(PathIndex)
			vAssert(isIdx && int(idx) == p, "nested hunk does not descend into the changed container position")
			descended = true
			cur[p] = b[p] // the nested hunks precede every later hunk of this array
			continue
		}
		// context of the hunks around the descent: the neighbours in the document as patched so far
		idx, isIdx := h.Path[0].(PathIndex)
		vAssert(isIdx, "hunk of an array diff does not address an array position")
		vAssert(len(h.Before) == 1 && len(h.After) == 1, "hunk does not carry exactly one line of before- and after-context")
		ok, next := refListHunk(cur, int(idx), h.Before, h.Remove, h.Add, h.After)
		vAssert(ok, "hunk context/removals do not match the neighbouring elements")
		cur = next
		for _, r := range h.Remove {
			vAssert(refKind(r) < 5, "container at the same position removed instead of recursed into")
		}
		for _, x := range h.Add {
			vAssert(refKind(x) < 5, "container at the same position re-added instead of recursed into")
		}
	}
	if !refEq(a[p], b[p], modeList, eps) {
		vAssert(descended, "no hunk descends into the changed container")
	}
	vCover("c06.recurse")
}

// VerifC06Canary must be violated.
func VerifC06Canary() {
	a, b := vNumArray(2), vNumArray(2)
	d := a.Diff(b)
	rm := 0
	for _, h := range d {
		rm += len(h.Remove)
	}
	vAssert(rm == 0, "canary: list diffs never remove")
}
