//go:build verif

package jd

func init() {
	vHarnesses["VerifC13Patch"] = VerifC13Patch
	vHarnesses["VerifC13Canary"] = VerifC13Canary
}

// vPathElemJSON: one element of a path as the reader would hand it to NewPath.
func vPathElemJSON(kinds int) JsonNode {
	switch vChoice(kinds) {
	case 0:
		if vParam("RENDER", 0) == 1 {
			return jsonNumber(vInt(-3, 4)) // rendered through strconv.Itoa: small integers
		}
		return jsonNumber(vF64()) // any finite float: negative, fractional, 1e300
	case 1:
		return jsonString("k")
	case 2:
		return jsonObject{}
	case 3:
		return jsonArray{}
	case 4:
		return jsonObject{"id": vNum()}
	default:
		return jsonArray{jsonObject{"id": vNum()}}
	}
}

func vC13Target() JsonNode {
	switch vChoice(6) {
	case 0:
		return vNumArray(2)
	case 1:
		return jsonObject{"k": vNumArray(1)}
	case 2:
		return jsonArray{jsonObject{"id": vNum(), "k": vNum()}}
	case 3:
		return vNum()
	case 4:
		return voidNode{}
	default:
		return jsonArray{vNumArray(1)}
	}
}

func vC13Ctx() []JsonNode {
	switch vChoice(3) {
	case 0:
		return nil
	case 1:
		return []JsonNode{voidNode{}}
	default:
		return []JsonNode{vNum()}
	}
}

// VerifC13Patch: a structurally valid diff with an arbitrary path against an arbitrary
// target: Patch and the three renderers return a value or an error, never panic.
func VerifC13Patch() {
	n := 1 + vChoice(vParam("PLEN", 2))
	elems := make(jsonArray, n)
	for i := range elems {
		elems[i] = vPathElemJSON(vParam("PKINDS", 6))
	}
	path, perr := NewPath(elems)
	vAssume(perr == nil)
	h := DiffElement{Path: path, Before: vC13Ctx(), After: vC13Ctx(), Remove: vNums(vParam("RM", 1)), Add: vNums(vParam("AD", 1))}
	if vChoice(2) == 1 {
		h.Metadata.Merge = true
	}
	d := Diff{h}
	t := vC13Target()
	p, err := t.Patch(d)
	vAssert(err != nil || p != nil, "Patch returned neither a document nor an error")
	if err == nil {
		// the result must be a usable document (the CLI prints it): no nil nodes inside
		vObserve("~result", p.Json())
	}
	_ = d.Render()
	if vParam("RENDER", 0) == 1 {
		s1, e1 := d.RenderPatch()
		vAssert(e1 != nil || len(s1) > 0, "RenderPatch returned neither text nor an error")
		if h.Metadata.Merge {
			s2, e2 := d.RenderMerge()
			vAssert(e2 != nil || len(s2) >= 0, "RenderMerge returned neither text nor an error")
		}
	}
	vCover("c13.patch")
}

// VerifC13Canary must be violated: a deliberate out-of-range access.
func VerifC13Canary() {
	a := vNumArray(2)
	i := vInt(0, 2)
	_ = a[i]
}
