//go:build verif

package jd

import (
	"encoding/json"
	"strings"
)

func init() {
	vHarnesses["VerifC13ReadDiff"] = VerifC13ReadDiff
	vHarnesses["VerifC13ReadPatch"] = VerifC13ReadPatch
	vHarnesses["VerifC13ReadMerge"] = VerifC13ReadMerge
}

// payloads of a diff line: decodable and undecodable texts, path-like, metadata-like, values
var vC13Payloads = []string{
	"", "{", "[]", `["k"]`, "[0]", "[{}]", "[[]]", "[[1,2]]", `[{"id":1},"k"]`, `[[{"id":1}]]`, `[true]`,
	`{"Merge":true}`, `{"Merge":1}`, `{"Z":1}`, "1", `"s"`, "null", " ",
}

// vTargets: documents a read diff is applied to
func vC13Targets() []JsonNode {
	return []JsonNode{
		jsonArray{jsonNumber(1), jsonNumber(2)},
		jsonObject{"k": jsonArray{jsonNumber(1)}},
		jsonArray{jsonObject{"id": jsonNumber(1), "k": jsonNumber(1)}},
		jsonNumber(1),
		voidNode{},
	}
}

func vNoPanicApply(d Diff) {
	for _, t := range vC13Targets() {
		p, err := vClone(t).Patch(d)
		vAssert(err != nil || p != nil, "Patch returned neither a document nor an error")
		if err == nil {
			_ = p.Json() // the result must be a usable document
		}
	}
	_ = d.Render()
	_, _ = d.RenderPatch()
	_, _ = d.RenderMerge()
}

// VerifC13ReadDiff: readDiff on arbitrary line structures: every line is a symbolic header byte
// followed by a payload from the menu; lines are added while the reader has not rejected the
// prefix at a line. Whatever is read is then applied to every target and rendered.
func VerifC13ReadDiff() {
	maxLines := vParam("LINES", 3)
	text := ""
	var d Diff
	for i := 0; i < maxLines; i++ {
		h := vByte()
		// header classes: the seven the reader knows, newline, and "anything else"
		vAssume(h == '@' || h == '^' || h == '[' || h == ']' || h == ' ' || h == '-' || h == '+' || h == '\n' || h == 'x')
		pay := vC13Payloads[vChoice(vParam("PAYLOADS", len(vC13Payloads)))]
		text += string([]byte{h}) + pay + "\n"
		var err error
		d, err = ReadDiffString(text)
		if err != nil {
			d = nil
			if !strings.Contains(err.Error(), "Unexpected end of diff") {
				break // rejected at a line: longer texts with this prefix are rejected the same way
			}
		}
		if vChoice(2) == 0 {
			break
		}
	}
	vObserve("text", text)
	if d != nil {
		vNoPanicApply(d)
	}
	vAssert(true, "reached")
	vCover("c13.readdiff")
}

var vC13Ops = []string{"test", "remove", "add", "replace", "bogus"}
var vC13Pointers = []string{"", "/", "/0", "/-", "/k", "k", "/01", "/-1", "/k/0", "/~", "/1"}

// VerifC13ReadPatch: ReadPatchString on arbitrary operation lists (any op string, any pointer,
// any value kind) or a document that is not an operation list; then Patch on every target.
func VerifC13ReadPatch() {
	var text string
	if vChoice(4) == 0 {
		text = []string{"{", "1", `{"op":"add"}`, `[1]`, `[{"op":1}]`, `[{"path":5,"op":"add"}]`, ``, `null`}[vChoice(8)]
	} else {
		n := 1 + vChoice(vParam("OPS", 3))
		ops := make([]patchElement, n)
		for i := range ops {
			var v interface{}
			switch vChoice(4) {
			case 0:
				v = vF64()
			case 1:
				v = nil
			case 2:
				v = map[string]interface{}{"id": vF64()}
			default:
				v = []interface{}{vF64()}
			}
			ops[i] = patchElement{Op: vC13Ops[vChoice(len(vC13Ops))], Path: vC13Pointers[vChoice(vParam("PTRS", len(vC13Pointers)))], Value: v}
		}
		b, _ := json.Marshal(ops)
		text = string(b)
	}
	vObserve("text", text)
	d, err := ReadPatchString(text)
	if err == nil {
		vNoPanicApply(d)
	}
	vAssert(true, "reached")
	vCover("c13.readpatch")
}

// VerifC13ReadMerge: ReadMergeString on undecodable and arbitrary documents; then Patch.
func VerifC13ReadMerge() {
	var text string
	switch vChoice(3) {
	case 0:
		text = []string{"{", "", " ", "[", `{"a":}`, "nul"}[vChoice(6)]
	case 1:
		text = vMergeObj(1).Json()
	default:
		text = vScalarOrVoid().Json()
	}
	d, err := ReadMergeString(text)
	if err == nil {
		vNoPanicApply(d)
	}
	vAssert(true, "reached")
	vCover("c13.readmerge")
}
