//go:build verif

package jd

func init() {
	vHarnesses["VerifC08Hunk"] = VerifC08Hunk
	vHarnesses["VerifC08Keyed"] = VerifC08Keyed
	vHarnesses["VerifC08Keyed2"] = VerifC08Keyed2
	vHarnesses["VerifC08Diff"] = VerifC08Diff
	vHarnesses["VerifC08Canary"] = VerifC08Canary
	vHarnesses["VerifC08Members"] = VerifC08Members
}

// vC08Member: a number, a short array of numbers or an object holding one.
func vC08Member() JsonNode {
	pair := func() jsonArray {
		if vParam("INNER", 0) > 0 {
			return vNumArray(vParam("INNER", 0))
		}
		return jsonArray{vNum(), vNum()}
	}
	switch vChoice(3) {
	case 0:
		return vNum()
	case 1:
		return pair()
	default:
		return jsonObject{"a": pair()}
	}
}

// VerifC08Members: {} / [] hunks whose listed values and target members are containers, so
// that a member may be spelled differently (other order, repeats) in the hunk and the target.
func VerifC08Members() {
	mode := [...]int{modeSet, modeMultiset}[vChoice(2)]
	var last PathElement = PathSet{}
	if mode == modeMultiset {
		last = PathMultiset{}
	}
	c := make(jsonArray, vChoice(vParam("N", 2)+1))
	for i := range c {
		c[i] = vC08Member()
	}
	R := make([]JsonNode, vChoice(vParam("RM", 1)+1))
	for i := range R {
		R[i] = vC08Member()
	}
	A := make([]JsonNode, vChoice(vParam("AD", 1)+1))
	for i := range A {
		if vParam("ADKINDS", 1) > 1 {
			A[i] = vC08Member()
		} else {
			A[i] = vNum()
		}
	}
	if mode == modeSet {
		vPairwiseDistinct(R, mode)
	}
	if vKnown("hash.alias") {
		vAssumeNoHashAlias(append(append(jsonArray{}, c...), R...), jsonArray(A))
	}
	p, err := vClone(c).Patch(Diff{{Path: Path{last}, Remove: R, Add: A}})
	vObserve("err", err != nil)
	wantOk, want := refApplySetBag([]JsonNode(c), R, A, mode)
	vAssert((err == nil) == wantOk, "set/multiset hunk over container members accepted/rejected against the reference semantics")
	if err == nil {
		vAssert(refEq(p, jsonArray(want), mode, 0), "set/multiset hunk over container members applied with a result other than the reference result")
	}
	vCover("c08.members." + [...]string{"set", "multiset"}[mode-1])
}

// refApplySetBag: reference semantics of a {} / [] hunk on array c.
func refApplySetBag(c []JsonNode, R, A []JsonNode, mode int) (bool, []JsonNode) {
	ok := true
	if mode == modeSet {
		for _, r := range R {
			ok = vAnd(ok, refMember(r, c, mode, 0))
		}
	} else {
		for _, r := range R {
			ok = vAnd(ok, refCount(r, c, mode, 0) >= refCount(r, R, mode, 0))
		}
	}
	// result, as a list standing for the set / bag: members of c that are not removed, then A
	var res []JsonNode
	if mode == modeSet {
		for _, x := range c {
			if !refMember(x, R, mode, 0) {
				res = append(res, x)
			}
		}
	} else {
		// remove one occurrence per listed removal
		used := make([]bool, len(c))
		for _, r := range R {
			for i, x := range c {
				if !used[i] && refEq(x, r, mode, 0) {
					used[i] = true
					break
				}
			}
		}
		for i, x := range c {
			if !used[i] {
				res = append(res, x)
			}
		}
	}
	res = append(res, A...)
	return ok, res
}

func vPairwiseDistinct(xs []JsonNode, mode int) {
	for i := range xs {
		for j := 0; j < i; j++ {
			vAssume(!refEq(xs[i], xs[j], mode, 0))
		}
	}
}

// VerifC08Hunk: a hand-built set / multiset hunk against an arbitrary target.
func VerifC08Hunk() {
	mode := [...]int{modeSet, modeMultiset}[vChoice(2)]
	var last PathElement = PathSet{}
	if mode == modeMultiset {
		last = PathMultiset{}
	}
	R := vNums(vParam("RM", 2))
	A := vNums(vParam("AD", 1))
	if mode == modeSet {
		vPairwiseDistinct(R, mode) // a set hunk lists each member once
	}
	how := [...]int{0, 1}[vChoice(vParam("WRAPS", 2))]
	// target: an array of numbers, or not an array at all
	var inner JsonNode
	isArr := true
	switch vChoice(3) {
	case 0, 1:
		inner = vNumArray(vParam("N", 2))
	default:
		isArr = false
		if vChoice(2) == 0 {
			inner = vNum()
		} else {
			inner = jsonObject{"x": vNum()}
		}
	}
	if vKnown("hash.alias") {
		vAssumeNoHashAlias(inner, inner)
	}
	path := Path{last}
	if how == 1 {
		path = Path{PathKey("k"), last}
	}
	d := Diff{{Path: path, Remove: R, Add: A}}
	doc := vWrap(vClone(inner), how)
	p, err := doc.Patch(d)
	vObserve("err", err != nil)
	if !isArr {
		vAssert(err != nil, "set/multiset hunk applied to a target that is not an array")
		vCover("c08.hunk.nonarray")
		return
	}
	wantOk, want := refApplySetBag([]JsonNode(inner.(jsonArray)), R, A, mode)
	vAssert((err == nil) == wantOk, "set/multiset hunk accepted/rejected against the reference semantics")
	if err == nil {
		vAssert(refEq(p, vWrap(jsonArray(want), how), mode, 0), "set/multiset hunk applied with a result other than the reference result")
	}
	vCover("c08.hunk." + [...]string{"set", "multiset"}[mode-1])
}

// VerifC08Keyed: a hunk addressed to the member identified by {"id":v}: the nested strict
// change applies inside exactly that member, and its failure fails the whole patch.
func VerifC08Keyed() {
	n := vChoice(vParam("N", 2) + 1)
	c := make(jsonArray, n)
	// identity of a member: a number, null, or no "id" key at all
	idKind := make([]int, n)
	ids := make([]float64, n)
	vals := make([]float64, n)
	nkinds := 1 + 2*vParam("IDKINDS", 1)
	mixed := vParam("MIXED", 0) == 1 // members that are no objects at all
	if mixed {
		nkinds++
	}
	for i := range c {
		idKind[i] = vChoice(nkinds)
		ids[i], vals[i] = vF64(), vF64()
		if mixed && idKind[i] == nkinds-1 {
			idKind[i] = 99
			c[i] = jsonNumber(vals[i])
			continue
		}
		o := jsonObject{"v": jsonNumber(vals[i])}
		switch idKind[i] {
		case 0:
			o["id"] = jsonNumber(ids[i])
		case 1:
			o["id"] = jsonNull(nil)
		}
		c[i] = o
	}
	// the path addresses a number or null identity
	pathKind := vChoice(1 + vParam("IDKINDS", 1))
	id := vF64()
	var pid JsonNode = jsonNumber(id)
	if pathKind == 1 {
		pid = jsonNull(nil)
	}
	matches := func(i int) bool {
		if pathKind == 1 {
			return idKind[i] == 1
		}
		return idKind[i] == 0 && ids[i] == id
	}
	// "the object matching the keys": at most one member matches
	for i := range c {
		for j := 0; j < i; j++ {
			vAssume(!(matches(i) && matches(j)))
		}
	}
	r, a := vF64(), vF64()
	// nested change: replace v (remove r, add a), or remove v, or add a new key w
	kind := vChoice(3)
	var h DiffElement
	switch kind {
	case 0:
		h = DiffElement{Path: Path{PathSetKeys{"id": pid}, PathKey("v")}, Remove: []JsonNode{jsonNumber(r)}, Add: []JsonNode{jsonNumber(a)}}
	case 1:
		h = DiffElement{Path: Path{PathSetKeys{"id": pid}, PathKey("v")}, Remove: []JsonNode{jsonNumber(r)}}
	default:
		h = DiffElement{Path: Path{PathSetKeys{"id": pid}, PathKey("w")}, Add: []JsonNode{jsonNumber(a)}}
	}
	if vKnown("hash.alias") {
		vAssumeNoHashAlias(c, c)
	}
	p, err := vClone(c).Patch(Diff{h})
	// reference
	match := -1
	for i := range c {
		if matches(i) {
			match = i
		}
	}
	wantOk := match >= 0
	want := vClone(c).(jsonArray)
	if match >= 0 {
		o := want[match].(jsonObject)
		switch kind {
		case 0:
			wantOk = vals[match] == r
			o["v"] = jsonNumber(a)
		case 1:
			wantOk = vals[match] == r
			delete(o, "v")
		default:
			o["w"] = jsonNumber(a)
		}
	}
	vObserve("err", err != nil)
	if vKnown("keyed.nested") && match >= 0 {
		// listed finding: a failing nested change inside the matched member is not reported
		vAssume(wantOk)
	}
	vAssert((err == nil) == wantOk, "keyed-member hunk accepted/rejected against the reference semantics")
	if err == nil {
		vAssert(refEq(p, want, modeSet, 0), "keyed-member hunk applied with a result other than the reference result")
	}
	vCover("c08.keyed")
}

// VerifC08Keyed2: keyed members identified by TWO keys ({"a":x,"b":y}): the member addressed is
// the one whose a equals the path's a AND whose b equals the path's b — a member holding the
// same values under exchanged keys, or lacking one of the keys, is not it.
func VerifC08Keyed2() {
	n := vChoice(vParam("N", 2) + 1)
	c := make(jsonArray, n)
	as, bs, vals := make([]float64, n), make([]float64, n), make([]float64, n)
	has := make([]int, n) // 0 both keys, 1 only a, 2 only b
	for i := range c {
		as[i], bs[i], vals[i] = vF64(), vF64(), vF64()
		o := jsonObject{"v": jsonNumber(vals[i])}
		has[i] = vChoice(1 + 2*vParam("PARTIAL", 1))
		if has[i] != 2 {
			o["a"] = jsonNumber(as[i])
		}
		if has[i] != 1 {
			o["b"] = jsonNumber(bs[i])
		}
		c[i] = o
	}
	pa, pb := vF64(), vF64()
	matches := func(i int) bool { return has[i] == 0 && as[i] == pa && bs[i] == pb }
	for i := range c {
		for j := 0; j < i; j++ {
			vAssume(!(matches(i) && matches(j)))
		}
	}
	r, a := vF64(), vF64()
	kind := vChoice(3)
	keys := PathSetKeys{"a": jsonNumber(pa), "b": jsonNumber(pb)}
	var h DiffElement
	switch kind {
	case 0:
		h = DiffElement{Path: Path{keys, PathKey("v")}, Remove: []JsonNode{jsonNumber(r)}, Add: []JsonNode{jsonNumber(a)}}
	case 1:
		h = DiffElement{Path: Path{keys, PathKey("v")}, Remove: []JsonNode{jsonNumber(r)}}
	default:
		h = DiffElement{Path: Path{keys, PathKey("w")}, Add: []JsonNode{jsonNumber(a)}}
	}
	if vKnown("hash.alias") {
		vAssumeNoHashAlias(c, c)
	}
	p, err := vClone(c).Patch(Diff{h})
	match := -1
	for i := range c {
		if matches(i) {
			match = i
		}
	}
	wantOk := match >= 0
	want := vClone(c).(jsonArray)
	if match >= 0 {
		o := want[match].(jsonObject)
		switch kind {
		case 0:
			wantOk = vals[match] == r
			o["v"] = jsonNumber(a)
		case 1:
			wantOk = vals[match] == r
			delete(o, "v")
		default:
			o["w"] = jsonNumber(a)
		}
	}
	vObserve("err", err != nil)
	if vKnown("keyed.nested") && match >= 0 {
		vAssume(wantOk)
	}
	vAssert((err == nil) == wantOk, "two-key member hunk accepted/rejected against the reference semantics")
	if err == nil {
		vAssert(refEq(p, want, modeSet, 0), "two-key member hunk applied with a result other than the reference result")
	}
	vCover("c08.keyed2")
}

// VerifC08Diff: a generated set/multiset diff applied to perturbed targets.
func VerifC08Diff() {
	k := [...]int{optSet, optMultiset}[vChoice(2)]
	mode := modeSet
	if k == optMultiset {
		mode = modeMultiset
	}
	n := vParam("N", 2)
	a, b := vNumArray(n), vNumArray(n)
	if vKnown("hash.alias") {
		vAssumeNoHashAlias(a, b)
	}
	d := a.Diff(b, vOptions(k)...)
	var c jsonArray
	switch vChoice(4) {
	case 0: // reversed a
		c = make(jsonArray, len(a))
		for i := range a {
			c[len(a)-1-i] = a[i]
		}
	case 1: // a plus a fresh member
		c = append(append(jsonArray{}, a...), vNum())
	case 2: // a minus a member
		vAssume(len(a) > 0)
		c = append(jsonArray{}, a[1:]...)
	default: // a with one member replaced
		vAssume(len(a) > 0)
		c = append(jsonArray{}, a...)
		c[0] = vNum()
	}
	var cur []JsonNode = []JsonNode(vClone(c).(jsonArray))
	wantOk := true
	for _, h := range d {
		ok, next := refApplySetBag(cur, h.Remove, h.Add, mode)
		if !ok {
			wantOk = false
			break
		}
		cur = next
	}
	p, err := vClone(c).Patch(d)
	vAssert((err == nil) == wantOk, "generated set/multiset diff accepted/rejected against the reference semantics")
	if err == nil {
		vAssert(refEq(p, jsonArray(cur), mode, 0), "generated set/multiset diff applied with a result other than the reference result")
	}
	vCover("c08.diff." + optName(k))
}

// VerifC08Canary must be violated.
func VerifC08Canary() {
	c := vNumArray(2)
	d := Diff{{Path: Path{PathSet{}}, Remove: []JsonNode{vNum()}}}
	_, err := c.Patch(d)
	vAssert(err != nil, "canary: set removal never applies")
}
