//go:build verif

package jd

func init() {
	vHarnesses["VerifC15History"] = VerifC15History
	vHarnesses["VerifC15Render"] = VerifC15Render
	vHarnesses["VerifC15MapOrder"] = VerifC15MapOrder
	vHarnesses["VerifC15MapOrderSets"] = VerifC15MapOrderSets
	vHarnesses["VerifC15Canary"] = VerifC15Canary
}

func vC15Docs(k int) (JsonNode, JsonNode) {
	switch vChoice(vParam("FAMS", 3)) {
	case 0:
		n := vParam("N", 2)
		return vNumArray(n), vNumArray(n)
	case 1:
		return vObjDoc(0), vObjDoc(0)
	case 3:
		// array -> object -> array: objects that are hashed as array members and hold arrays
		mk := func() jsonArray {
			a := make(jsonArray, vChoice(vParam("M", 1)+1))
			for i := range a {
				a[i] = jsonObject{"t": vNumArray(2)}
			}
			return a
		}
		return mk(), mk()
	default:
		return jsonObject{"k": vNumArray(2)}, jsonObject{"k": vNumArray(2)}
	}
}

// VerifC15History: read-only API calls, in any order, leave documents and diffs untouched.
func VerifC15History() {
	k := [...]int{optNone, optMerge, optSet, optMultiset}[vChoice(vParam("OPTN", 2))]
	opts := vOptions(k)
	a, b := vC15Docs(k)
	if vKnown("hash.alias") {
		vAssumeNoHashAlias(a, b)
	}
	aj, bj := a.Json(), b.Json() // before the first call that could touch the documents
	d1 := a.Diff(b, opts...)
	r0 := a.Diff(b, opts...).Render()
	p0, pe0 := a.Diff(b, opts...).RenderPatch()
	m0, me0 := a.Diff(b, opts...).RenderMerge()
	h := vParam("H", 2)
	for i := 0; i < h; i++ {
		switch vChoice(6) {
		case 0:
			_ = d1.Render()
		case 1:
			_ = d1.Render(COLOR)
		case 2:
			_, _ = d1.RenderPatch()
		case 3:
			_, _ = d1.RenderMerge()
		case 4:
			_ = a.Json()
			_ = b.Json(opts...)
			_ = a.Yaml()
			_ = a.Equals(b, opts...)
		default:
			_ = a.Diff(b, opts...)
		}
	}
	vAssert(a.Json() == aj, "a read-only call changed document a")
	vAssert(b.Json() == bj, "a read-only call changed document b")
	vAssert(d1.Render() == r0, "native rendering of the diff changed after read-only calls")
	p1, pe1 := d1.RenderPatch()
	vAssert((pe1 == nil) == (pe0 == nil), "RenderPatch succeeds/fails differently after read-only calls")
	if pe1 == nil && pe0 == nil {
		vAssert(p1 == p0, "JSON Patch rendering of the diff changed after read-only calls")
	}
	m1, me1 := d1.RenderMerge()
	vAssert((me1 == nil) == (me0 == nil), "RenderMerge succeeds/fails differently after read-only calls")
	if me1 == nil && me0 == nil {
		vAssert(m1 == m0, "JSON Merge Patch rendering of the diff changed after read-only calls")
	}
	vAssert(d1.Render() == r0, "native rendering of the diff changed after rendering it in the other formats")
	p, err := a.Patch(d1)
	vAssert(err == nil, "the diff no longer patches after being rendered")
	vAssert(p.Equals(b, opts...), "the diff no longer turns a into b after being rendered")
	vCover("c15.history." + optName(k))
}

// VerifC15MapOrder: the same computation under two independent map iteration orders gives the same output.
func VerifC15MapOrder() {
	which := vChoice(5)
	a := jsonObject{"a": vNum(), "b": vNum()}
	b := jsonObject{"b": vNum(), "c": vNum()}
	switch vChoice(4) {
	case 1:
		b = jsonObject{"a": jsonObject{"x": vNum(), "y": vNum()}}
	case 2: // several keys added and removed at once
		a = jsonObject{"p": vNum()}
		b = jsonObject{"m": vNum(), "n": vNum()}
	case 3: // nested: an object member gains two keys
		a = jsonObject{"k": jsonObject{"x": vNum()}}
		b = jsonObject{"k": jsonObject{"m": vNum(), "n": vNum()}}
	}
	text := b.Json()
	f := func() string {
		switch which {
		case 0:
			d, err := ReadMergeString(text)
			if err != nil {
				return "error"
			}
			return d.Render()
		case 1:
			return a.Diff(b).Render()
		case 2:
			s, _ := a.Diff(b, MERGE).RenderMerge()
			return s
		case 3:
			s, _ := a.Diff(b).RenderPatch()
			return s
		default:
			d, err := ReadMergeString(text)
			if err != nil {
				return "error"
			}
			r, err := a.Patch(d)
			if err != nil {
				return "error"
			}
			return r.Json()
		}
	}
	vMapOrder(true)
	r1 := f()
	r2 := f()
	vMapOrder(false)
	vAssert(r1 == r2, "output depends on map iteration order")
	vCover("c15.maporder")
}

// VerifC15MapOrderSets: set / multiset diffs and patches (which count members in Go maps) give
// the same text when every map is ranged over in insertion order and in reverse order.
func VerifC15MapOrderSets() {
	k := [...]int{optSet, optMultiset}[vChoice(2)]
	opts := vOptions(k)
	n := vParam("N", 2)
	a, b := vNumArray(n), vNumArray(n)
	if vKnown("hash.alias") {
		vAssumeNoHashAlias(a, b)
	}
	which := vChoice(3)
	f := func() string {
		d := a.Diff(b, opts...)
		switch which {
		case 0:
			return d.Render()
		case 1:
			p, err := vClone(a).Patch(d)
			if err != nil {
				return "error"
			}
			return p.Json()
		default:
			p, err := vClone(b).Patch(b.Diff(a, opts...))
			if err != nil {
				return "error"
			}
			return p.Json(opts...) + a.Json(opts...)
		}
	}
	r1 := f()
	vMapReverse(true)
	r2 := f()
	vMapReverse(false)
	vAssert(r1 == r2, "set/multiset output depends on map iteration order")
	vCover("c15.mapordersets")
}

// VerifC15Canary must be violated.
func VerifC15Canary() {
	a, b := vNumArray(2), vNumArray(2)
	d := a.Diff(b)
	vAssert(d.Render() == "", "canary: diffs render to nothing")
}

// VerifC15Render: Json() and Yaml() of a fixed set of documents (a bare string, containers
// holding a string longer than a YAML line, a number) are called in a solver-chosen order and
// number of times; every call must return what the first call on that document returned —
// rendering one document must not influence the rendering of another (hidden state in the
// codecs included).
func VerifC15Render() {
	long := "aaaa bbbb cccc dddd eeee ffff gggg hhhh iiii jjjj kkkk llll mmmm nnnn oooo pppp qqqq rrrr ssss tttt uuuu"
	docs := []JsonNode{
		jsonString("c"),
		jsonObject{"k": jsonString(long)},
		jsonArray{jsonString(long), jsonBool(true)},
		jsonString(long),
		jsonObject{"n": vNum(), "s": jsonString("x y")},
		jsonNull(nil),
	}
	n := len(docs)
	firstY := make([]string, n)
	firstJ := make([]string, n)
	seenY := make([]bool, n)
	seenJ := make([]bool, n)
	h := vParam("H", 3)
	for step := 0; step < h; step++ {
		i := vChoice(n)
		if vChoice(2) == 0 {
			y := docs[i].Yaml()
			if seenY[i] {
				vAssert(y == firstY[i], "Yaml() of an unchanged document differs from its first rendering")
			} else {
				firstY[i], seenY[i] = y, true
			}
		} else {
			j := docs[i].Json()
			if seenJ[i] {
				vAssert(j == firstJ[i], "Json() of an unchanged document differs from its first rendering")
			} else {
				firstJ[i], seenJ[i] = j, true
			}
		}
	}
	// the obligation that is always reached: rendering twice in a row gives the same text
	k := vChoice(n)
	vAssert(docs[k].Yaml() == docs[k].Yaml(), "two consecutive Yaml() calls differ")
	vAssert(docs[k].Json() == docs[k].Json(), "two consecutive Json() calls differ")
	vCover("c15.render")
}
