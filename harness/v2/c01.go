//go:build verif

package jd

func init() {
	vHarnesses["VerifC01Flat"] = VerifC01Flat
}



// VerifC01Flat: diff-then-patch on two arrays of numbers, every option set.
func VerifC01Flat() {
	k := vChoice(optCount)
	vAssume(k != optSetKeys) // keyed sets need object members: separate family
	opts := vOptions(k)
	a := vNumArray(vParam("N", 3))
	b := vNumArray(vParam("N", 3))
	d := a.Diff(b, opts...)
	var x JsonNode = a
	if vChoice(2) == 1 {
		x = vClone(a)
	}
	vObserve("diff", d.Render())
	p, err := x.Patch(d)
	vAssert(err == nil, "patch of own diff failed")
	vObserve("patched", p.Json())
	vAssert(p.Equals(b, opts...), "patched document differs from target")
	vCover("c01.flat." + optName(k))
}
