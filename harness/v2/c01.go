//go:build verif

package jd

func init() {
	vHarnesses["VerifC01Flat"] = VerifC01Flat
	vHarnesses["VerifC01Nest"] = VerifC01Nest
	vHarnesses["VerifC01Obj"] = VerifC01Obj
	vHarnesses["VerifC01Keyed"] = VerifC01Keyed
	vHarnesses["VerifC01Void"] = VerifC01Void
	vHarnesses["VerifC01Mixed"] = VerifC01Mixed
	vHarnesses["VerifC01Canary"] = VerifC01Canary
	vHarnesses["VerifC01Deep"] = VerifC01Deep
	vHarnesses["VerifC01Seq"] = VerifC01Seq
	vHarnesses["VerifC01Kinds"] = VerifC01Kinds
	vHarnesses["VerifC01Perm"] = VerifC01Perm
}

// VerifC01Perm: set / multiset members that are themselves two-element arrays (bare or inside a
// one-key object), so that members can be equal under the reading in force while spelled
// differently as lists ([x,y] vs [y,x]); the diff side and the patch side must agree on them.
func VerifC01Perm() {
	n := vParam("N", 2)
	m := vParam("M", 1)
	mk := func(max int) jsonArray {
		a := make(jsonArray, vChoice(max+1))
		for i := range a {
			var e JsonNode = jsonArray{vNum(), vNum()}
			if vParam("OBJS", 1) == 1 && vChoice(2) == 1 {
				e = jsonObject{"t": e}
			}
			a[i] = e
		}
		return a
	}
	vC01Check(mk(n), mk(m), vOptChoice(0x06), "c01.perm")
}

// VerifC01Seq: longer arrays (up to N) whose elements are numbers or one-element arrays, so
// that replaced scalars, descents into containers and trailing context meet in one list.
func VerifC01Seq() {
	n := vParam("N", 3)
	mk := func() jsonArray {
		a := make(jsonArray, vChoice(n+1))
		for i := range a {
			if vChoice(2) == 1 {
				a[i] = jsonArray{vNum()}
			} else {
				a[i] = vNum()
			}
		}
		return a
	}
	vC01Check(mk(), mk(), vOptChoice(vParam("OPTS", 1)), "c01.seq")
}

// vSmallObj: object over keys a,b,c, each absent or a number.
func vSmallObj() jsonObject {
	o := jsonObject{}
	for _, k := range []string{"a", "b", "c"} {
		if vChoice(2) == 1 {
			o[k] = vNum()
		}
	}
	return o
}

// VerifC01Deep: the same small objects placed below a chain of keys / array positions of
// every length up to DEPTH (path slices of every length and spare capacity).
func VerifC01Deep() {
	k := vOptChoice(0x13)
	depth := vChoice(vParam("DEPTH", 7) + 1)
	var a, b JsonNode = vSmallObj(), vSmallObj()
	for i := 0; i < depth; i++ {
		if vParam("CHAINKINDS", 1) > 1 && vChoice(2) == 1 {
			a, b = jsonArray{a}, jsonArray{b}
		} else {
			a, b = jsonObject{"p": a}, jsonObject{"p": b}
		}
	}
	vC01Check(a, b, k, "c01.deep")
}

// vC01Check: the property itself.
func vC01Check(a, b JsonNode, k int, label string) {
	opts := vOptions(k)
	if vKnown("hash.alias") {
		vAssumeNoHashAlias(a, b)
	}
	d := a.Diff(b, opts...)
	var x JsonNode = a
	if vParam("CLONE", 0) == 1 && vChoice(2) == 1 {
		x = vClone(a)
	}
	vObserve(vObsLabel(k, "diff"), d.Render())
	p, err := x.Patch(d)
	vAssert(err == nil, "patch of own diff failed")
	vObserve(vObsLabel(k, "patched"), p.Json())
	vAssert(p.Equals(b, opts...), "patched document differs from target")
	vCover(label + "." + optName(k))
}

// VerifC01Flat: two arrays of numbers, every option set.
func VerifC01Flat() {
	k := vOptChoice(0x77)
	n := vParam("N", 3)
	vC01Check(vNumArray(n), vNumArray(n), k, "c01.flat")
}

// VerifC01Nest: arrays holding leaves, arrays and objects, optionally under a key / inside an array.
func VerifC01Nest() {
	k := vOptChoice(0x17)
	n := vParam("N", 2)
	how := [...]int{0, 3, 1, 2}[vChoice(vParam("WRAPS", 2))]
	vC01Check(vWrap(vNestArray(n), how), vWrap(vNestArray(n), how), k, "c01.nest")
}

// VerifC01Obj: objects with present/absent keys, nested objects and arrays.
func VerifC01Obj() {
	k := vOptChoice(0x77)
	d := vParam("D", 0)
	vC01Check(vObjDoc(d), vObjDoc(d), k, "c01.obj")
}

// VerifC01Keyed: arrays of objects identified by "id".
func VerifC01Keyed() {
	n := vParam("N", 2)
	m := vParam("M", n)
	how := vChoice(vParam("WRAPS", 2))
	if vParam("SCALARS", 0) == 1 {
		// keyed objects next to plain numbers (which may equal an object's key value)
		mk := func(max int) jsonArray {
			a := vKeyedArray(max)
			for i := vChoice(vParam("NSCAL", 1) + 1); i > 0; i-- {
				a = append(a, vNum())
			}
			return a
		}
		vC01Check(vWrap(mk(n), how), vWrap(mk(m), how), optSetKeys, "c01.keyedmix")
		return
	}
	vC01Check(vWrap(vKeyedArray(n), how), vWrap(vKeyedArray(m), how), optSetKeys, "c01.keyed")
}

// VerifC01Void: void and scalars of every kind on either side.
func VerifC01Void() {
	k := vOptChoice(0x77)
	a, b := vScalarOrVoid(), vScalarOrVoid()
	if isMergeOpt(k) {
		vAssume(!vHasNull(a) && !vHasNull(b))
	}
	vC01Check(a, b, k, "c01.void")
}

// VerifC01Mixed: arrays of leaves of every kind (strings, bools, null).
func VerifC01Mixed() {
	k := vOptChoice(0x77)
	n := vParam("N", 2)
	a, b := make(jsonArray, vChoice(n+1)), make(jsonArray, vChoice(n+1))
	for i := range a {
		a[i] = vLeaf()
	}
	for i := range b {
		b[i] = vLeaf()
	}
	if isMergeOpt(k) {
		vAssume(!vHasNull(a) && !vHasNull(b))
	}
	vC01Check(a, b, k, "c01.mixed")
}

// VerifC01Canary must be violated.
func VerifC01Canary() {
	a, b := vNumArray(2), vNumArray(2)
	d := a.Diff(b)
	p, err := vClone(a).Patch(d)
	vAssert(err == nil, "patch failed")
	vAssert(p.Equals(a), "canary: patched equals the source")
}

// VerifC01Kinds: arrays whose elements range over every kind of value (numbers, the strings "" and "a",
// booleans, null, empty and one-element arrays and objects), so that values of
// different kinds with similar content meet in one list / set / bag.
func VerifC01Kinds() {
	k := vOptChoice(vParam("OPTS", 0x07))
	n := vParam("N", 1)
	mk := func() jsonArray {
		a := make(jsonArray, vChoice(n+1))
		for i := range a {
			switch vChoice(9) {
			case 0:
				a[i] = vNum()
			case 1:
				a[i] = jsonString("")
			case 2:
				a[i] = jsonString("a")
			case 3:
				a[i] = jsonBool(vBool())
			case 4:
				a[i] = jsonNull(nil)
			case 5:
				a[i] = jsonArray{}
			case 6:
				a[i] = jsonObject{}
			case 7:
				a[i] = jsonArray{vNum()}
			default:
				a[i] = jsonObject{"k": vNum()}
			}
		}
		return a
	}
	vC01Check(mk(), mk(), k, "c01.kinds")
}
