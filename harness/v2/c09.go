//go:build verif

package jd

import "strconv"

func init() {
	vHarnesses["VerifC09Render"] = VerifC09Render
	vHarnesses["VerifC09Refuse"] = VerifC09Refuse
	vHarnesses["VerifC09Long"] = VerifC09Long
	vHarnesses["VerifC09Canary"] = VerifC09Canary
}

var vC09Keys = [...]string{"a/b", "m~n", "a~1b", "", "é", "k"}

// keys whose JSON text needs escapes that differ from Go's (control characters, DEL, a
// non-printable astral rune, quote and backslash, HTML-sensitive characters)
var vC09CtlKeys = [...]string{"x\u0001", "a\u007fb", "q\"\\", "<&>", "\U000e0001", "t\tn\n"}

func vKeyObj(nkeys int, inner int) jsonObject {
	o := jsonObject{}
	keys := vC09Keys[:]
	if vParam("KEYSET", 0) == 1 {
		keys = vC09CtlKeys[:]
	}
	for i := 0; i < nkeys; i++ {
		switch vChoice(3) {
		case 0:
		case 1:
			o[keys[i]] = vNum()
		default:
			o[keys[i]] = vNumArray(inner)
		}
	}
	return o
}

func vC09Docs() (JsonNode, JsonNode) {
	switch vChoice(vParam("FAMS", 5)) {
	case 0:
		n := vParam("N", 2)
		return vNumArray(n), vNumArray(vParam("M", n))
	case 1:
		nk := vParam("KEYS", 3)
		return vKeyObj(nk, 1), vKeyObj(nk, 1)
	case 2:
		return jsonArray{jsonObject{"a/b": vNumArray(2)}}, jsonArray{jsonObject{"a/b": vNumArray(2)}}
	case 3:
		return vScalarOrVoid(), vScalarOrVoid()
	default:
		// an array member followed (in key order) by a scalar member that may come and go
		n := vParam("N", 2)
		a, b := jsonObject{"k": vNumArray(n)}, jsonObject{"k": vNumArray(n)}
		if vChoice(2) == 1 {
			a["z"] = vNum()
		}
		if vChoice(2) == 1 {
			b["z"] = vNum()
		}
		return a, b
	}
}

// VerifC09Render: the rendered JSON Patch is well formed and, evaluated by the reference
// RFC 6902 implementation on a, gives b; on other documents where the native diff applies
// it applies too with the same result.
func VerifC09Render() {
	a, b := vC09Docs()
	if vKnown("hash.alias") {
		vAssumeNoHashAlias(a, b)
	}
	d := a.Diff(b)
	s, err := d.RenderPatch()
	vAssert(err == nil, "RenderPatch refused a diff whose paths are expressible as JSON Pointers")
	vObserve("patch", s)
	n, err := ReadJsonString(s)
	vAssert(err == nil, "rendered JSON Patch is not valid JSON")
	ops, wf := refDecodeOps(n)
	vAssert(wf, "rendered JSON Patch is not a well-formed RFC 6902 document")
	r, ok := ref6902(a, ops)
	vAssert(r != nil && ok, "the rendered JSON Patch does not apply to a under RFC 6902")
	if r != nil {
		vAssert(refEq(r, b, modeList, 0), "the rendered JSON Patch applied to a does not give b")
	}
	// second leg: another target on which the native diff applies
	if vParam("TARGETS", 1) == 1 {
		if ca, isArr := a.(jsonArray); isArr && len(ca) > 0 {
			var c jsonArray
			switch vChoice(3) {
			case 0:
				c = append(jsonArray{}, ca[1:]...)
			case 1:
				c = append(jsonArray{ca[0]}, ca...)
			default:
				c = append(jsonArray{}, ca...)
				c[len(c)-1] = vNum()
			}
			p, perr := vClone(c).Patch(d)
			if perr == nil {
				r2, ok2 := ref6902(c, ops)
				vAssert(r2 != nil && ok2, "native diff applies to c but the rendered JSON Patch does not")
				if r2 != nil {
					vAssert(refEq(r2, p, modeList, 0), "native diff and rendered JSON Patch give different results on c")
				}
			}
		}
	}
	vCover("c09.render")
}

// vLongPair: two arrays sharing a prefix of K (7..10) fixed strings followed by up to N numbers
// each, so that hunk and context indices cross from one decimal digit to two.
func vLongPair(n int) (jsonArray, jsonArray) {
	k := 7 + vChoice(4)
	a, b := jsonArray{}, jsonArray{}
	for i := 0; i < k; i++ {
		s := jsonString("p" + strconv.Itoa(i))
		a, b = append(a, s), append(b, s)
	}
	a = append(a, vNumArray(n)...)
	b = append(b, vNumArray(n)...)
	return a, b
}

// VerifC09Long: the rendering leg on arrays of 7..12 elements (two-digit indices).
func VerifC09Long() {
	ca, cb := vLongPair(vParam("N", 2))
	var a, b JsonNode = ca, cb
	if vChoice(2) == 1 {
		a, b = jsonObject{"k": ca}, jsonObject{"k": cb}
	}
	if vKnown("hash.alias") {
		vAssumeNoHashAlias(a, b)
	}
	d := a.Diff(b)
	s, err := d.RenderPatch()
	vAssert(err == nil, "RenderPatch refused a diff whose paths are expressible as JSON Pointers")
	vObserve("patch", s)
	n, err := ReadJsonString(s)
	vAssert(err == nil, "rendered JSON Patch is not valid JSON")
	ops, wf := refDecodeOps(n)
	vAssert(wf, "rendered JSON Patch is not a well-formed RFC 6902 document")
	r, ok := ref6902(a, ops)
	vAssert(r != nil && ok, "the rendered JSON Patch does not apply to a under RFC 6902")
	if r != nil {
		vAssert(refEq(r, b, modeList, 0), "the rendered JSON Patch applied to a does not give b")
	}
	// jd's own reader on its own output (C10, second sentence)
	d2, err := ReadPatchString(s)
	vAssert(err == nil, "jd cannot read its own JSON Patch")
	p, err := vClone(a).Patch(d2)
	vAssert(err == nil, "jd's own JSON Patch, read back, does not apply to a")
	vAssert(refEq(p, b, modeList, 0), "jd's own JSON Patch, read back and applied to a, does not give b")
	vCover("c09.long")
}

// VerifC09Refuse: paths that cannot be expressed are refused, never mistranslated.
func VerifC09Refuse() {
	var a, b JsonNode
	switch vChoice(6) {
	case 4: // signed number-like keys, which jd's own reader would take for indices
		k := strconv.Itoa(vInt(-12, 12))
		if vChoice(2) == 1 {
			k = "+" + strconv.Itoa(vInt(0, 12))
		}
		a, b = jsonObject{k: vNum()}, jsonObject{k: vNum()}
	case 5: // a number-like key in the middle of the path
		k := [...]string{"-3", "+1", "007", "12"}[vChoice(4)]
		a, b = jsonObject{"x": jsonObject{k: jsonObject{"y": vNum()}}}, jsonObject{"x": jsonObject{k: jsonObject{"y": vNum()}}}
	case 0:
		a, b = jsonObject{"0": vNum()}, jsonObject{"0": vNum()}
	case 1:
		a, b = jsonObject{"-": vNum()}, jsonObject{"-": vNum()}
	case 2:
		a, b = jsonObject{strconv.Itoa(vInt(0, 12)): vNumArray(1)}, jsonObject{}
	default:
		// set paths
		d := vNumArray(2).Diff(vNumArray(2), SET)
		vAssume(len(d) > 0)
		_, err := d.RenderPatch()
		vAssert(err != nil, "RenderPatch translated a set path")
		vCover("c09.refuse")
		return
	}
	d := a.Diff(b)
	vAssume(len(d) > 0)
	_, err := d.RenderPatch()
	vAssert(err != nil, "RenderPatch translated a number-like or '-' key instead of refusing it")
	vCover("c09.refuse")
}

// VerifC09Canary must be violated.
func VerifC09Canary() {
	a, b := vNumArray(1), vNumArray(1)
	s, _ := a.Diff(b).RenderPatch()
	vAssert(s == "[]", "canary: JSON patches are empty")
}
