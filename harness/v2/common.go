//go:build verif

package jd

// Shared generators and reference oracles. Everything here is ordinary Go: the
// engine executes it symbolically, the native replay executes it concretely.

func vNum() JsonNode { return jsonNumber(vF64()) }

// vLeaf: a scalar of solver-chosen kind.
func vLeaf() JsonNode {
	switch vChoice(4) {
	case 0:
		return jsonNumber(vF64())
	case 1:
		return jsonString(vStr(2))
	case 2:
		return jsonBool(vBool())
	default:
		return jsonNull(nil)
	}
}

func vNumArray(maxLen int) jsonArray {
	n := vChoice(maxLen + 1)
	a := make(jsonArray, n)
	for i := range a {
		a[i] = vNum()
	}
	return a
}

const (
	optNone = iota
	optSet
	optMultiset
	optSetKeys
	optMerge
	optSetMerge
	optMultisetMerge
	optCount
)

func vOptions(k int) []Option {
	switch k {
	case optSet:
		return []Option{SET}
	case optMultiset:
		return []Option{MULTISET}
	case optSetKeys:
		return []Option{SetKeys("id")}
	case optMerge:
		return []Option{MERGE}
	case optSetMerge:
		return []Option{SET, MERGE}
	case optMultisetMerge:
		return []Option{MULTISET, MERGE}
	}
	return []Option{}
}

func optName(k int) string {
	return [...]string{"none", "set", "multiset", "setkeys", "merge", "set+merge", "multiset+merge"}[k]
}

// vClone: structurally identical copy sharing nothing with n.
func vClone(n JsonNode) JsonNode {
	switch t := n.(type) {
	case jsonArray:
		c := make(jsonArray, len(t))
		for i, e := range t {
			c[i] = vClone(e)
		}
		return c
	case jsonObject:
		c := make(jsonObject, len(t))
		for k, e := range t {
			c[k] = vClone(e)
		}
		return c
	}
	return n
}
