//go:build verif

package jd

// Shared generators and reference oracles. Everything here is ordinary Go: the
// engine executes it symbolically, the native replay executes it concretely.

func vNum() JsonNode { return jsonNumber(vF64()) }

// vLeaf: a scalar of solver-chosen kind.
func vLeaf() JsonNode {
	switch vChoice(4) {
	case 0:
		return jsonNumber(vF64())
	case 1:
		return jsonString(vStrA(vParam("STRLEN", 1)))
	case 2:
		return jsonBool(vBool())
	default:
		return jsonNull(nil)
	}
}

func vNumArray(maxLen int) jsonArray {
	n := vChoice(maxLen + 1)
	a := make(jsonArray, n)
	for i := range a {
		a[i] = vNum()
	}
	return a
}

const (
	optNone = iota
	optSet
	optMultiset
	optSetKeys
	optMerge
	optSetMerge
	optMultisetMerge
	optCount
)

func vOptions(k int) []Option {
	switch k {
	case optSet:
		return []Option{SET}
	case optMultiset:
		return []Option{MULTISET}
	case optSetKeys:
		return []Option{SetKeys("id")}
	case optMerge:
		return []Option{MERGE}
	case optSetMerge:
		return []Option{SET, MERGE}
	case optMultisetMerge:
		return []Option{MULTISET, MERGE}
	}
	return []Option{}
}

func optName(k int) string {
	return [...]string{"none", "set", "multiset", "setkeys", "merge", "set+merge", "multiset+merge"}[k]
}

// vClone: structurally identical copy sharing nothing with n.
func vClone(n JsonNode) JsonNode {
	switch t := n.(type) {
	case jsonArray:
		c := make(jsonArray, len(t))
		for i, e := range t {
			c[i] = vClone(e)
		}
		return c
	case jsonObject:
		c := make(jsonObject, len(t))
		for k, e := range t {
			c[k] = vClone(e)
		}
		return c
	}
	return n
}

// ---- document families (DESIGN.md section 6) ----

// vNestElem: leaf, small array of leaves, or one-key object.
func vNestElem() JsonNode {
	switch vChoice(3 + vParam("EMPTYOBJ", 0)) {
	case 0:
		return vNum()
	case 1:
		return vNumArray(vParam("INNER", 1))
	case 2:
		return jsonObject{"k": vNum()}
	default:
		return jsonObject{}
	}
}

func vNestArray(maxLen int) jsonArray {
	n := vChoice(maxLen + 1)
	a := make(jsonArray, n)
	for i := range a {
		a[i] = vNestElem()
	}
	return a
}

// vObjDoc: object over keys a,b with symbolic presence; values leaf / array / nested object.
func vObjDoc(depth int) jsonObject {
	o := jsonObject{}
	for _, k := range []string{"a", "b"} {
		switch vChoice(4 + vParam("EMPTYOBJ", 0)) {
		case 0:
			// absent
		case 1:
			o[k] = vNum()
		case 2:
			o[k] = vNumArray(vParam("INNER", 1))
		case 4:
			o[k] = jsonObject{}
		default:
			if depth > 0 {
				o[k] = vObjDoc(depth - 1)
			} else {
				o[k] = jsonObject{"c": vNum()}
			}
		}
	}
	return o
}

// vKeyedArray: array of objects carrying "id" (pairwise distinct) and a payload "v".
func vKeyedArray(maxLen int) jsonArray {
	n := vChoice(maxLen + 1)
	a := make(jsonArray, n)
	ids := make([]float64, n)
	for i := range a {
		ids[i] = vF64()
		for j := 0; j < i; j++ {
			vAssume(ids[i] != ids[j])
		}
		o := jsonObject{"id": jsonNumber(ids[i])}
		switch vChoice(3) {
		case 0:
		case 1:
			o["v"] = vNum()
		default:
			o["v"] = vNumArray(1)
		}
		a[i] = o
	}
	return a
}

// vWrap places a document under a key / inside an array / both.
func vWrap(n JsonNode, how int) JsonNode {
	switch how {
	case 1:
		return jsonObject{"k": n}
	case 2:
		return jsonArray{n}
	case 3:
		return jsonArray{jsonObject{"k": n}}
	}
	return n
}

// vScalarOrVoid: void, number, string, bool, null, {} or [].
func vScalarOrVoid() JsonNode {
	switch vChoice(7) {
	case 0:
		return voidNode{}
	case 1:
		return vNum()
	case 2:
		return jsonString(vStrA(1))
	case 3:
		return jsonBool(vBool())
	case 4:
		return jsonNull(nil)
	case 5:
		return jsonObject{}
	default:
		return jsonArray{}
	}
}

func vHasNull(n JsonNode) bool {
	switch t := n.(type) {
	case jsonNull:
		return true
	case jsonObject:
		for _, v := range t {
			if vHasNull(v) {
				return true
			}
		}
	default:
		if xs, ok := refArr(n); ok {
			for _, v := range xs {
				if vHasNull(v) {
					return true
				}
			}
		}
	}
	return false
}

func isMergeOpt(k int) bool { return k == optMerge || k == optSetMerge || k == optMultisetMerge }
func isSetOpt(k int) bool   { return k == optSet || k == optSetMerge || k == optSetKeys }
func isBagOpt(k int) bool   { return k == optMultiset || k == optMultisetMerge }
func isListOpt(k int) bool  { return k == optNone || k == optMerge }

// vOptChoice: option set chosen among those enabled by the bit mask parameter OPTS.
func vOptChoice(def int) int {
	mask := vParam("OPTS", def)
	var ks []int
	for k := 0; k < optCount; k++ {
		if mask&(1<<k) != 0 {
			ks = append(ks, k)
		}
	}
	return ks[vChoice(len(ks))]
}

// vObsLabel marks observations whose text depends on the real FNV order (not compared natively).
func vObsLabel(k int, l string) string {
	if isListOpt(k) {
		return l
	}
	return "~" + l
}
