//go:build verif

package jd

import "math"

// Named exclusions for listed known findings (KNOWN_FINDINGS.txt). Each removes
// exactly the region of the finding; everything else stays under check.

func vIsNegZero(f float64) bool { return f == 0 && math.Signbit(f) }

// vAssumeNoNegZero: no number leaf is -0 (finding: Equals treats 0 and -0 as equal, hashing does not).
func vAssumeNoNegZero(n JsonNode) {
	switch t := n.(type) {
	case jsonNumber:
		vAssume(!vIsNegZero(float64(t)))
	case jsonObject:
		for _, v := range t {
			vAssumeNoNegZero(v)
		}
	default:
		if xs, ok := refArr(n); ok {
			for _, v := range xs {
				vAssumeNoNegZero(v)
			}
		}
	}
}

func vAssumeNoHashAlias(a, b JsonNode) {}

// vAssumeNoEmptyObjOverObj: the patch has no {} member (at any depth) where the target has an object.
func vAssumeNoEmptyObjOverObj(t, p JsonNode) {
	po, ok := p.(jsonObject)
	if !ok {
		return
	}
	to, tok := t.(jsonObject)
	if len(po) == 0 {
		vAssume(!tok || len(to) == 0)
		return
	}
	for k, v := range po {
		var tv JsonNode = voidNode{}
		if tok {
			if x, has := to[k]; has {
				tv = x
			}
		}
		vAssumeNoEmptyObjOverObj(tv, v)
	}
}
