//go:build verif

package jd

import "strings"

func init() {
	vHarnesses["VerifC02Lib"] = VerifC02Lib
	vHarnesses["VerifC02Hunks"] = VerifC02Hunks
	vHarnesses["VerifC02Color"] = VerifC02Color
	vHarnesses["VerifC02Canary"] = VerifC02Canary
	vHarnesses["VerifC02Big"] = VerifC02Big
}

// vBigStr: a string payload whose rendered line ('+ "..."', 4 bytes around the text) sits just
// below, at and above the buffer sizes line readers commonly have (4 KiB, 64 KiB).
func vBigStr() jsonString {
	l := [...]int{4092, 65531, 65532}[vChoice(3)]
	return jsonString(strings.Repeat("x", l))
}

// VerifC02Big: long lines. A diff whose removed / added / context values are long strings must
// survive Render -> ReadDiffString like any other (line-length limits of the reader).
func VerifC02Big() {
	var a, b JsonNode
	switch vChoice(2) {
	case 0:
		// object member replaced: '- "..."' and '+ "..."' lines, followed by a second hunk
		a = jsonObject{"blob": vBigStr(), "rev": vNum()}
		// (a number, not a string, on the other side: Render computes a quadratic character-level
		// LCS when one string replaces another)
		b = jsonObject{"blob": vNum(), "rev": vNum()}
		if vChoice(2) == 1 {
			a, b = b, a
		}
	default:
		// list hunk between long context lines
		var x, y JsonNode = vBigStr(), jsonString(vStrASCII(1))
		if vChoice(2) == 1 {
			x, y = y, x
		}
		a = jsonArray{x, vNum(), y, vNum()}
		b = jsonArray{x, vNum(), y, vNum()}
	}
	d := a.Diff(b)
	text := d.Render()
	d2, err := ReadDiffString(text)
	vAssert(err == nil, "ReadDiffString rejected a rendered diff with a long line")
	vAssert(len(d2) == len(d), "re-read diff with a long line has a different number of hunks")
	vAssert(d2.Render() == text, "re-rendering the re-read diff with a long line gives a different text")
	p, err := vClone(a).Patch(d2)
	vAssert(err == nil, "the re-read diff with a long line does not apply to a")
	vAssert(p.Equals(b), "the re-read diff with a long line does not turn a into b")
	vCover("c02.big")
}

// VerifC02Lib: diffs produced by the library survive Render -> ReadDiffString.
func VerifC02Lib() {
	k := vOptChoice(0x7f)
	var a, b JsonNode
	switch vChoice(vParam("FAMS", 4)) {
	case 0:
		n := vParam("N", 2)
		a, b = vNumArray(n), vNumArray(n)
	case 1:
		a, b = vObjDoc(0), vObjDoc(0)
	case 2:
		a, b = vScalarOrVoid(), vScalarOrVoid()
	default:
		a, b = vKeyedArray(1), vKeyedArray(1)
	}
	if k == optSetKeys {
		if _, ok := a.(jsonArray); !ok {
			vAssume(false)
		}
	}
	if isMergeOpt(k) {
		vAssume(!vHasNull(a) && !vHasNull(b))
	}
	if vKnown("hash.alias") {
		vAssumeNoHashAlias(a, b)
	}
	opts := vOptions(k)
	d := a.Diff(b, opts...)
	text := d.Render()
	vObserve(vObsLabel(k, "text"), text)
	d2, err := ReadDiffString(text)
	vAssert(err == nil, "ReadDiffString rejected a rendered diff")
	vAssert(d2.Render() == text, "re-rendering the re-read diff gives a different text")
	vAssert(len(d2) == len(d), "re-read diff has a different number of hunks")
	p, err := vClone(a).Patch(d2)
	vAssert(err == nil, "the re-read diff does not apply to a")
	vAssert(p.Equals(b, opts...), "the re-read diff does not turn a into b")
	vCover("c02.lib." + optName(k))
}

// vPayload: a value carried on a - / + / context line.
func vPayload() JsonNode {
	switch vChoice(vParam("PAYLOADS", 4)) {
	case 0:
		return vNum()
	case 1:
		return jsonString(vStrASCII(1))
	case 2:
		return jsonArray{vNum()}
	default:
		return jsonObject{"k": vNum()}
	}
}

func vPayloads(max int) []JsonNode {
	n := vChoice(max + 1)
	out := make([]JsonNode, n)
	for i := range out {
		out[i] = vPayload()
	}
	return out
}

// vHunk: a well-formed hunk built from the public DiffElement fields.
func vHunk(merge bool) DiffElement {
	var h DiffElement
	h.Metadata.Merge = merge
	kind := vChoice(vParam("PATHS", 7))
	switch kind {
	case 0:
		h.Path = Path{}
	case 1:
		h.Path = Path{PathKey("k")}
	case 2:
		h.Path = Path{PathIndex(vInt(0, 2))}
	case 3:
		h.Path = Path{PathKey("k"), PathIndex(vInt(0, 2))}
	case 4:
		h.Path = Path{PathSet{}}
	case 5:
		h.Path = Path{PathKey("k"), PathMultiset{}}
	default:
		h.Path = Path{PathSetKeys{"id": vNum()}, PathKey("k")}
	}
	isList := kind == 2 || kind == 3
	isMulti := isList || kind == 4 || kind == 5
	if merge {
		// merge hunks: no context, no removals, exactly one add (void = delete)
		if vChoice(2) == 0 {
			h.Add = []JsonNode{voidNode{}}
		} else {
			h.Add = []JsonNode{vPayload()}
		}
		return h
	}
	if isList {
		// context: absent / boundary / value
		ctx2 := vParam("CTX2", 0) // also two lines: boundary + value, value + value
		switch vChoice(3 + 2*ctx2) {
		case 1:
			h.Before = []JsonNode{voidNode{}}
		case 2:
			h.Before = []JsonNode{vPayload()}
		case 3:
			h.Before = []JsonNode{voidNode{}, vPayload()}
		case 4:
			h.Before = []JsonNode{vPayload(), vPayload()}
		}
		switch vChoice(3 + 2*ctx2) {
		case 1:
			h.After = []JsonNode{voidNode{}}
		case 2:
			h.After = []JsonNode{vPayload()}
		case 3:
			h.After = []JsonNode{vPayload(), voidNode{}}
		case 4:
			h.After = []JsonNode{vPayload(), vPayload()}
		}
	}
	max := 1
	if isMulti {
		max = vParam("MULTI", 2)
	}
	h.Remove = vPayloads(max)
	h.Add = vPayloads(max)
	vAssume(len(h.Remove)+len(h.Add) > 0) // at least one visible - / + line
	return h
}

func vSameNodes(x, y []JsonNode) bool {
	// nil and empty are the same list of lines
	if len(x) != len(y) {
		return false
	}
	ok := true
	for i := range x {
		ok = vAnd(ok, refEq(x[i], y[i], modeList, 0))
	}
	return ok
}

// VerifC02Hunks: sequences of strict hunks followed by merge hunks built from the public fields.
func VerifC02Hunks() {
	n := 1 + vChoice(vParam("HUNKS", 2))
	nm := vChoice(n + 1) // the last nm hunks are merge hunks (metadata is additive)
	d := make(Diff, n)
	for i := range d {
		d[i] = vHunk(i >= n-nm)
	}
	text := d.Render()
	vObserve("text", text)
	d2, err := ReadDiffString(text)
	vAssert(err == nil, "ReadDiffString rejected a well-formed rendered diff")
	vAssert(d2.Render() == text, "re-rendering the re-read diff gives a different text")
	vAssert(len(d2) == len(d), "re-read diff has a different number of hunks")
	for i := range d {
		if i >= len(d2) {
			break
		}
		x, y := d[i], d2[i]
		vAssert(x.Metadata.Merge == y.Metadata.Merge, "merge flag lost or gained")
		vAssert(refEq(x.Path.JsonNode(), y.Path.JsonNode(), modeList, 0), "path changed")
		vAssert(vSameNodes(x.Before, y.Before), "before-context changed")
		vAssert(vSameNodes(x.After, y.After), "after-context changed")
		vAssert(vSameNodes(x.Remove, y.Remove), "removed values changed")
		vAssert(vSameNodes(x.Add, y.Add), "added values changed")
	}
	vCover("c02.hunks")
}

// vStripEsc removes the three ANSI sequences jd uses (works on texts holding opaque tokens).
func vStripEsc(s string) string {
	s = strings.ReplaceAll(s, "\033[31m", "")
	s = strings.ReplaceAll(s, "\033[32m", "")
	return strings.ReplaceAll(s, "\033[0m", "")
}

func vStripANSI(s string) string {
	out := make([]byte, 0, len(s))
	for i := 0; i < len(s); i++ {
		if s[i] == 0x1b {
			for i < len(s) && s[i] != 'm' {
				i++
			}
			continue
		}
		out = append(out, s[i])
	}
	return string(out)
}

// VerifC02Color: colour adds ANSI escape sequences and nothing else.
func VerifC02Color() {
	strs := [...]string{"", "a", "ab", "a\"b", "<>&", "\x01", "\U0001F600x", "é", "x\"", "\"", "\\", "a\\\""}
	var r, a []JsonNode
	switch vChoice(3) {
	case 0: // single string replaced by single string: character-level colouring
		r = []JsonNode{jsonString(strs[vChoice(len(strs))])}
		a = []JsonNode{jsonString(strs[vChoice(len(strs))])}
	case 1:
		r = []JsonNode{vNum()}
		a = []JsonNode{jsonString(strs[vChoice(len(strs))])}
	default:
		r = []JsonNode{jsonArray{vNum()}}
		a = []JsonNode{vNum(), jsonObject{"k": vNum()}}
	}
	h := DiffElement{Path: Path{PathIndex(0)}, Before: []JsonNode{voidNode{}}, Remove: r, Add: a, After: []JsonNode{vNum()}}
	if vChoice(2) == 1 {
		h = DiffElement{Metadata: Metadata{Merge: true}, Path: Path{PathKey("k")}, Add: []JsonNode{voidNode{}}}
	}
	d := Diff{h}
	plain := d.Render()
	vAssert(vStripEsc(d.Render(COLOR)) == plain, "coloured rendering differs from the plain one by more than ANSI escape sequences")
	vCover("c02.color")
}

// VerifC02Canary must be violated.
func VerifC02Canary() {
	a, b := vNumArray(1), vNumArray(1)
	d := a.Diff(b)
	d2, _ := ReadDiffString(d.Render())
	vAssert(len(d2) == 0, "canary: re-read diffs are empty")
}
