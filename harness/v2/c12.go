//go:build verif

package jd

func init() {
	vHarnesses["VerifC12Merge"] = VerifC12Merge
	vHarnesses["VerifC12Canary"] = VerifC12Canary
	vHarnesses["VerifC12Deep"] = VerifC12Deep
}

// vSmallPatchObj: object over keys a,b,c, each absent / null / number / {}.
func vSmallPatchObj() jsonObject {
	o := jsonObject{}
	for _, k := range []string{"a", "b", "c"} {
		switch vChoice(4) {
		case 1:
			o[k] = jsonNull(nil)
		case 2:
			o[k] = vNum()
		case 3:
			o[k] = jsonObject{}
		}
	}
	return o
}

// VerifC12Deep: a small patch object below a chain of keys of every length up to DEPTH, against
// a target that has the same chain (with a small object at the end), a shorter chain, or nothing.
func VerifC12Deep() {
	depth := vChoice(vParam("DEPTH", 7) + 1)
	var p JsonNode = vSmallPatchObj()
	var t JsonNode = vSmallObj()
	tdepth := depth
	switch vChoice(3) {
	case 1:
		tdepth = depth / 2
		t = vNum()
	case 2:
		tdepth = 0
		t = jsonObject{}
	}
	for i := 0; i < depth; i++ {
		p = jsonObject{"p": p}
	}
	for i := 0; i < tdepth; i++ {
		t = jsonObject{"p": t}
	}
	if vKnown("merge.rootempty") {
		if po, ok := p.(jsonObject); ok && len(po) == 0 {
			_, tIsObj := t.(jsonObject)
			vAssume(tIsObj)
		}
	}
	text := p.Json()
	vObserve("patch", text)
	d, err := ReadMergeString(text)
	vAssert(err == nil, "ReadMergeString rejected a valid merge patch")
	r, err := vClone(t).Patch(d)
	vAssert(err == nil, "applying a merge patch failed")
	vObserve("result", r.Json())
	vAssert(refEq(r, ref7386(t, p), modeList, 0), "merge patch result differs from MergePatch(target, patch)")
	vCover("c12.deep")
}

// ref7386: RFC 7386 section 2, verbatim, on node trees (void = absent).
func ref7386(target, patch JsonNode) JsonNode {
	po, isObj := patch.(jsonObject)
	if !isObj {
		return patch
	}
	out := jsonObject{}
	if to, ok := target.(jsonObject); ok {
		for k, v := range to {
			out[k] = v
		}
	}
	for k, v := range po {
		if isNull(v) {
			delete(out, k)
			continue
		}
		var cur JsonNode = voidNode{}
		if x, has := out[k]; has {
			cur = x
		}
		out[k] = ref7386(cur, v)
	}
	return out
}

// vMergeDoc: an RFC 7386 patch document: objects over keys a,b nested to depth, members
// absent / null / number / {} / nested object / array; or a non-object root.
func vMergeMember(depth int) (JsonNode, bool) {
	switch vChoice(6) {
	case 0:
		return nil, false
	case 1:
		return jsonNull(nil), true
	case 2:
		return vNum(), true
	case 3:
		return jsonObject{}, true
	case 4:
		if depth > 0 {
			return vMergeObj(depth - 1), true
		}
		return jsonObject{"c": vNum()}, true
	default:
		return vMergeArr(), true
	}
}

// vMergeArr: an array as a patch value. RFC 7386 treats arrays as opaque replacement values:
// nulls inside them (bare, in a nested array, as a member of an element) are data, not removals.
func vMergeArr() jsonArray {
	switch vChoice(vParam("ARRKINDS", 5)) {
	case 0:
		return jsonArray{vNum()}
	case 1:
		return jsonArray{jsonNull(nil)}
	case 2:
		return jsonArray{jsonObject{"k": jsonNull(nil), "j": vNum()}}
	case 3:
		return jsonArray{jsonArray{jsonNull(nil)}, vNum()}
	default:
		return jsonArray{}
	}
}

func vMergeObj(depth int) jsonObject {
	o := jsonObject{}
	for _, k := range []string{"a", "b"} {
		if v, ok := vMergeMember(depth); ok {
			o[k] = v
		}
	}
	return o
}

func vMergeTarget() JsonNode {
	switch vChoice(5) {
	case 0:
		return vObjDoc(0)
	case 1:
		return vNum()
	case 2:
		return jsonArray{vNum()}
	case 3:
		return jsonObject{"a": jsonObject{"a": vNum(), "c": vNum()}}
	default:
		return jsonNull(nil)
	}
}

// VerifC12Merge: ReadMergeString(p) applied to t equals MergePatch(t, p).
func VerifC12Merge() {
	vMapOrder(vParam("MAPORDER", 0) == 1)
	var p JsonNode
	switch vChoice(4) {
	case 0, 1:
		p = vMergeObj(vParam("D", 0))
	case 2:
		p = jsonNull(nil)
	default:
		if vChoice(2) == 0 {
			p = vNum()
		} else {
			p = vMergeArr()
		}
	}
	t := vMergeTarget()
	if vKnown("merge.rootempty") {
		// listed finding: the document {} is read as "no change" whatever the target is
		if po, ok := p.(jsonObject); ok && len(po) == 0 {
			_, tIsObj := t.(jsonObject)
			vAssume(tIsObj)
		}
	}
	if vKnown("merge.rootnull") {
		vAssume(!isNull(p))
	}
	text := p.Json()
	vObserve("patch", text)
	d, err := ReadMergeString(text)
	vAssert(err == nil, "ReadMergeString rejected a valid merge patch")
	r, err := vClone(t).Patch(d)
	vAssert(err == nil, "applying a merge patch failed")
	want := ref7386(t, p)
	vObserve("result", r.Json())
	vAssert(refEq(r, want, modeList, 0), "merge patch result differs from MergePatch(target, patch)")
	vCover("c12.merge")
}

// VerifC12Canary must be violated.
func VerifC12Canary() {
	p := vMergeObj(0)
	d, _ := ReadMergeString(p.Json())
	vAssert(len(d) == 0, "canary: merge patches are always empty")
}
