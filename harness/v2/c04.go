//go:build verif

package jd

func init() {
	vHarnesses["VerifC04Pair"] = VerifC04Pair
	vHarnesses["VerifC04Precision"] = VerifC04Precision
	vHarnesses["VerifC04Canary"] = VerifC04Canary
}

// vStrL: arbitrary bytes, length from {0,1,8}: 8 bytes can alias a float64 bit pattern or
// one of the constant 8-byte hash preimages; 0 bytes the empty set preimage.
func vStrL() string {
	n := [...]int{0, 1, 8}[vChoice(3)]
	b := make([]byte, n)
	for i := range b {
		b[i] = vByte()
	}
	return string(b)
}

func vC04Elem(allowVoid bool) JsonNode {
	n := vParam("KINDS", 10)
	if allowVoid && n == 10 {
		n = 11
	}
	if vParam("RICH", 0) == 2 {
		// numbers and two-key objects only (which value belongs to which key)
		if vChoice(2) == 0 {
			return jsonNumber(vF64())
		}
		return jsonObject{"a": jsonNumber(vF64()), "b": jsonNumber(vF64())}
	}
	if vParam("RICH", 0) == 1 {
		// richer element kinds (two-key objects, nesting) instead of the string / scalar kinds
		switch vChoice(5) {
		case 0:
			return jsonNumber(vF64())
		case 1:
			return jsonObject{"a": jsonNumber(vF64()), "b": jsonNumber(vF64())}
		case 2:
			return jsonArray{jsonArray{jsonNumber(vF64()), jsonNumber(vF64())}}
		case 3:
			return jsonObject{"a": jsonArray{jsonNumber(vF64()), jsonNumber(vF64())}}
		default:
			return jsonArray{jsonNumber(vF64()), jsonNumber(vF64()), jsonNumber(vF64())}
		}
	}
	switch vChoice(n) {
	case 0:
		return jsonNumber(vF64())
	case 1:
		return jsonString(vStrL())
	case 2:
		return jsonBool(vBool())
	case 3:
		return jsonNull(nil)
	case 4:
		return jsonArray{}
	case 5:
		return jsonObject{}
	case 6:
		return jsonArray{jsonNumber(vF64())}
	case 7:
		return jsonArray{jsonNumber(vF64()), jsonNumber(vF64())}
	case 8:
		return jsonObject{"k": jsonNumber(vF64())}
	case 9:
		return jsonArray{jsonString(vStrL())}
	}
	return voidNode{}
}

func vC04Doc(n int) JsonNode {
	l := vChoice(n + 2)
	if l == n+1 {
		return vC04Elem(true)
	}
	a := make(jsonArray, l)
	for i := range a {
		a[i] = vC04Elem(false)
	}
	return a
}

func vC04Mode(k int) (int, []Option) {
	switch k {
	case 1:
		return modeSet, []Option{SET}
	case 2:
		return modeMultiset, []Option{MULTISET}
	case 3:
		return modeSet, []Option{SetKeys("id")}
	}
	return modeList, []Option{}
}

// VerifC04Pair: Equals against the reference equality, reflexivity, symmetry.
func VerifC04Pair() {
	k := vChoice(4)
	mode, opts := vC04Mode(k)
	n := vParam("N", 1)
	a := vC04Doc(n)
	b := vC04Doc(n)
	if vKnown("hash.alias") {
		vAssumeNoHashAlias(a, b)
	}
	got := a.Equals(b, opts...)
	want := refEq(a, b, mode, 0)
	vObserve("equals", got)
	vAssert(got == want, "Equals disagrees with the reference equality")
	vAssert(a.Equals(a, opts...), "Equals is not reflexive")
	vAssert(got == b.Equals(a, opts...), "Equals is not symmetric")
	vCover("c04.pair." + [...]string{"list", "set", "multiset", "setkeys"}[k])
}

// VerifC04Precision: numbers within eps, list mode.
func VerifC04Precision() {
	eps := vF64()
	vAssume(eps >= 0)
	n := vChoice(vParam("N", 1) + 1)
	a := make(jsonArray, n)
	b := make(jsonArray, n)
	for i := range a {
		a[i] = jsonNumber(vF64())
		b[i] = jsonNumber(vF64())
	}
	got := a.Equals(b, Precision(eps))
	want := refEq(a, b, modeList, eps)
	vAssert(got == want, "Equals under Precision disagrees with |x-y| <= eps")
	vCover("c04.precision")
}

// VerifC04Canary must be violated (vacuity guard).
func VerifC04Canary() {
	a := vC04Doc(1)
	b := vC04Doc(1)
	vAssert(!a.Equals(b), "canary: no two documents are equal")
}
