//go:build verif

package jd

import "strings"

// Reference RFC 6902 / RFC 6901 evaluator on node trees, written from the RFC text.
// Supports test, remove, add (and replace = remove+add, move/copy are not in jd's subset).

func refPtrTokens(p string) ([]string, bool) {
	if p == "" {
		return nil, true
	}
	if p[0] != '/' {
		return nil, false
	}
	parts := strings.Split(p[1:], "/")
	for i, t := range parts {
		// RFC 6901: '~' must be followed by '0' or '1'
		for j := 0; j < len(t); j++ {
			if t[j] == '~' && (j+1 >= len(t) || (t[j+1] != '0' && t[j+1] != '1')) {
				return nil, false
			}
		}
		t = strings.ReplaceAll(t, "~1", "/")
		t = strings.ReplaceAll(t, "~0", "~")
		parts[i] = t
	}
	return parts, true
}

// refIndex: RFC 6901 array index: "0" | [1-9][0-9]* ; "-" = one past the end (only where allowed).
func refIndex(tok string, n int, allowEnd bool) (int, bool) {
	if tok == "-" {
		if allowEnd {
			return n, true
		}
		return 0, false
	}
	if len(tok) == 0 || (len(tok) > 1 && tok[0] == '0') || len(tok) > 9 {
		return 0, false
	}
	v := 0
	for i := 0; i < len(tok); i++ {
		c := tok[i]
		if c < '0' || c > '9' {
			return 0, false
		}
		v = v*10 + int(c-'0')
	}
	if v < n || (allowEnd && v == n) {
		return v, true
	}
	return 0, false
}

// refOp applies one operation at the location toks below doc. ok may be symbolic (test).
func refOp(doc JsonNode, toks []string, op string, val JsonNode) (JsonNode, bool) {
	if len(toks) == 0 {
		switch op {
		case "test":
			return doc, refEq(doc, val, modeList, 0)
		case "add":
			return val, true
		case "remove":
			// removing the whole document is not defined by the RFC: lenient reading (absent)
			return voidNode{}, !isVoid(doc)
		}
		return nil, false
	}
	switch t := doc.(type) {
	case jsonObject:
		key := toks[0]
		cur, has := t[key]
		out := jsonObject{}
		for k, v := range t {
			out[k] = v
		}
		if len(toks) == 1 {
			switch op {
			case "test":
				if !has {
					return nil, false
				}
				return doc, refEq(cur, val, modeList, 0)
			case "remove":
				if !has {
					return nil, false
				}
				delete(out, key)
				return out, true
			case "add":
				out[key] = val
				return out, true
			}
			return nil, false
		}
		if !has {
			return nil, false
		}
		r, ok := refOp(cur, toks[1:], op, val)
		if r == nil {
			return nil, false
		}
		out[key] = r
		return out, ok
	}
	if xs, isArr := refArr(doc); isArr {
		last := len(toks) == 1
		i, okIdx := refIndex(toks[0], len(xs), last && op == "add")
		if !okIdx {
			return nil, false
		}
		if last {
			switch op {
			case "test":
				return doc, refEq(xs[i], val, modeList, 0)
			case "remove":
				out := make(jsonArray, 0, len(xs))
				out = append(out, xs[:i]...)
				out = append(out, xs[i+1:]...)
				return out, true
			case "add":
				out := make(jsonArray, 0, len(xs)+1)
				out = append(out, xs[:i]...)
				out = append(out, val)
				out = append(out, xs[i:]...)
				return out, true
			}
			return nil, false
		}
		r, ok := refOp(xs[i], toks[1:], op, val)
		if r == nil {
			return nil, false
		}
		out := make(jsonArray, len(xs))
		copy(out, xs)
		out[i] = r
		return out, ok
	}
	return nil, false
}

type refPatchOp struct {
	op    string
	path  string
	value JsonNode
	has   bool
}

// refDecodeOps: a decoded JSON document -> operation list; wellFormed per RFC 6902 section 4.
func refDecodeOps(n JsonNode) ([]refPatchOp, bool) {
	arr, ok := n.(jsonArray)
	if !ok {
		return nil, false
	}
	ops := make([]refPatchOp, len(arr))
	for i, e := range arr {
		o, isObj := e.(jsonObject)
		if !isObj {
			return nil, false
		}
		opn, ok1 := o["op"].(jsonString)
		pth, ok2 := o["path"].(jsonString)
		if !ok1 || !ok2 {
			return nil, false
		}
		v, has := o["value"]
		switch string(opn) {
		case "test", "add":
			if !has {
				return nil, false
			}
		case "remove":
		default:
			return nil, false
		}
		ops[i] = refPatchOp{op: string(opn), path: string(pth), value: v, has: has}
	}
	return ops, true
}

// ref6902: sequential evaluation; the first failing operation fails the patch.
func ref6902(doc JsonNode, ops []refPatchOp) (JsonNode, bool) {
	ok := true
	for _, o := range ops {
		toks, good := refPtrTokens(o.path)
		if !good {
			return nil, false
		}
		r, k := refOp(doc, toks, o.op, o.value)
		if r == nil {
			return nil, false
		}
		ok = vAnd(ok, k)
		doc = r
	}
	return doc, ok
}
