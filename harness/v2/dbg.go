//go:build verif

package jd

func init() { vHarnesses["VerifDbg"] = VerifDbg }

func VerifDbg() {
	a := jsonObject{}
	b := jsonObject{"b": jsonNumber(0)}
	d := a.Diff(b)
	vObserve("len", len(d))
	vObserve("plen", len(d[0].Path))
	vObserve("alen", len(d[0].Add))
	vObserve("diff", d.Render())
}
