//go:build verif

package jd

// Harness runtime, native side. The symbolic engine intercepts every v* function
// declared here by name; natively they read the next value of a replay vector.

import (
	"fmt"
	"math"
	"os"
	"strings"
)

type vReplayState struct {
	vals   []uint64
	kinds  []string
	pos    int
	obs    [][2]string
	covers []string
}

type vAssumeFail struct{}
type vAssertFail struct{ msg string }
type vDesync struct{ msg string }

var vR *vReplayState

var vHarnesses = map[string]func(){}

func vNext(kind string) uint64 {
	if vR == nil {
		panic(vDesync{"no replay vector"})
	}
	if vR.pos >= len(vR.vals) {
		panic(vDesync{fmt.Sprintf("replay vector exhausted at %d (want %s)", vR.pos, kind)})
	}
	if vR.kinds[vR.pos] != kind {
		panic(vDesync{fmt.Sprintf("replay vector kind mismatch at %d: have %s want %s", vR.pos, vR.kinds[vR.pos], kind)})
	}
	v := vR.vals[vR.pos]
	vR.pos++
	return v
}

func vChoice(n int) int {
	if n <= 1 {
		if n <= 0 {
			panic(vAssumeFail{})
		}
		return 0
	}
	v := int(vNext("choice"))
	if v < 0 || v >= n {
		panic(vDesync{"choice out of range"})
	}
	return v
}

func vInt(lo, hi int) int {
	v := int(int64(vNext("int")))
	if v < lo || v > hi {
		panic(vDesync{"int out of range"})
	}
	return v
}

func vBool() bool     { return vNext("bool") != 0 }
func vByte() byte     { return byte(vNext("byte")) }
func vF64() float64   { return math.Float64frombits(vNext("f64")) }
func vAssume(c bool) {
	if !c {
		panic(vAssumeFail{})
	}
}
func vAssert(c bool, msg string) {
	if !c {
		panic(vAssertFail{msg})
	}
}
func vCover(label string) {
	if vR != nil {
		vR.covers = append(vR.covers, label)
	}
}
func vObserve(label string, x any) {
	if vR != nil {
		vR.obs = append(vR.obs, [2]string{label, fmt.Sprint(x)})
	}
}
func vKnown(name string) bool {
	for _, k := range strings.Split(os.Getenv("VERIF_KNOWN"), ",") {
		if k == name {
			return true
		}
	}
	return false
}
func vMapOrder(on bool) {}

// vMapReverse: under the engine every map range runs in reverse insertion order while on (one
// fixed alternative order instead of forking over all of them); natively a no-op.
func vMapReverse(on bool) {}

// vSymbolic reports whether the harness runs under the symbolic engine.
func vSymbolic() bool { return false }

// ---- helpers interpreted by the engine like any other code ----

func vStr(maxLen int) string {
	n := vChoice(maxLen + 1)
	b := make([]byte, n)
	for i := range b {
		b[i] = vByte()
	}
	return string(b)
}

// vStrA: ASCII bytes (0x00-0x7f) of length <= maxLen.
func vStrA(maxLen int) string {
	n := vChoice(maxLen + 1)
	b := make([]byte, n)
	for i := range b {
		c := vByte()
		vAssume(c < 0x80)
		b[i] = c
	}
	return string(b)
}

// vStrASCII: printable ASCII without quote and backslash (safe through every codec).
func vStrASCII(maxLen int) string {
	n := vChoice(maxLen + 1)
	b := make([]byte, n)
	for i := range b {
		c := vByte()
		vAssume(c >= 0x20 && c < 0x7f && c != '"' && c != '\\')
		b[i] = c
	}
	return string(b)
}

// vParam: a bound chosen by the check's tier (engine: -params; native: VERIF_PARAMS).
func vParam(name string, def int) int {
	for _, kv := range strings.Split(os.Getenv("VERIF_PARAMS"), ",") {
		if strings.HasPrefix(kv, name+"=") {
			n := 0
			fmt.Sscanf(kv[len(name)+1:], "%d", &n)
			return n
		}
	}
	return def
}

// vAnd / vOr: conjunction / disjunction without short-circuit (no fork in the engine).
func vAnd(a, b bool) bool { return a && b }
func vOr(a, b bool) bool  { return a || b }

// vIte: branch-free integer select.
func vIte(c bool, a, b int) int {
	if c {
		return a
	}
	return b
}
