//go:build verif

package jd

import "fmt"

func init() {
	vHarnesses["VerifSelfCorpus"] = VerifSelfCorpus
	vHarnesses["VerifSelfCodec"] = VerifSelfCodec
}

// the repository's fuzz corpus (v2/fuzz_test.go) plus texts that stress the codec model
var vCorpus = []string{
	``, ` `, `null`, `0`, `1`, `""`, `"foo"`, `"bar"`, `"null"`, `[]`, `[null]`, `[null,null,null]`, `[1]`, `[1,2,3]`,
	`[{},[],3]`, `[1,{},[]]`, `{}`, `{"foo":"bar"}`, `{"foo":null}`, `{"foo":1}`, `{"foo":[]}`, `{"foo":[null]}`,
	`{"foo":[1]}`, `{"foo":[1,2,3]}`, `{"foo":[1,null,3]}`, `{"foo":{}}`, `{"foo":{"bar":null}}`, `{"foo":{"bar":1}}`,
	`{"foo":{"bar":[]}}`, `{"foo":{"bar":[1,2,3]}}`, `{"foo":{"bar":{}}}`,
	`"<>&\"\\\u0001 "`, `"😀é"`, `[-0,1e21,5e-324,1.5,-3]`, `{"a/b":1,"m~n":[true,false],"":{}}`, `[[1,2],[2,1],[1,2]]`,
	`[{"id":1,"v":2},{"id":2,"v":[3]}]`,
}

// VerifSelfCorpus: translator validation. No symbolic input: the engine executes the real code
// concretely (interpreter, slice growth, maps, real FNV, codec) and every observation must be
// byte-identical to the native run.
func VerifSelfCorpus() {
	i := vChoice(len(vCorpus))
	j := vChoice(len(vCorpus))
	k := vChoice(optCount)
	a, err := ReadJsonString(vCorpus[i])
	vAssert(err == nil, "corpus entry does not parse")
	b, err := ReadJsonString(vCorpus[j])
	vAssert(err == nil, "corpus entry does not parse")
	if isMergeOpt(k) && (vHasNull(a) || vHasNull(b)) {
		return
	}
	opts := vOptions(k)
	vObserve("eq", a.Equals(b, opts...))
	d := a.Diff(b, opts...)
	vObserve("n", len(d))
	vObserve("render", d.Render(opts...))
	vObserve("color", d.Render(COLOR))
	if isListOpt(k) {
		s, err := d.RenderPatch()
		vObserve("patch", fmt.Sprint(s, err != nil))
	}
	if isMergeOpt(k) {
		s, err := d.RenderMerge()
		vObserve("merge", fmt.Sprint(s, err != nil))
	}
	d2, err := ReadDiffString(d.Render())
	vObserve("reread", fmt.Sprint(len(d2), err != nil))
	p, err := vClone(a).Patch(d)
	vObserve("patcherr", err != nil)
	if err == nil {
		vObserve("patched", p.Json(opts...))
		vObserve("patched-eq", p.Equals(b, opts...))
	}
	vObserve("ajson", a.Json())
}

// VerifSelfCodec: Marshal / Unmarshal through the model agree with the real codec on the corpus.
func VerifSelfCodec() {
	i := vChoice(len(vCorpus))
	a, err := ReadJsonString(vCorpus[i])
	vAssert(err == nil, "corpus entry does not parse")
	text := a.Json()
	vObserve("json", text)
	b, err := ReadJsonString(text)
	vObserve("err", err != nil)
	if err == nil {
		vObserve("again", b.Json())
		vAssert(a.Equals(b), "Unmarshal(Marshal(v)) differs from v")
	}
	m, err := ReadMergeString(vCorpus[i])
	if err == nil {
		vObserve("merge", m.Render())
	}
}
