//go:build verif

package jd

func init() {
	vHarnesses["VerifC05Flat"] = VerifC05Flat
	vHarnesses["VerifC05Nest"] = VerifC05Nest
	vHarnesses["VerifC05Docs"] = VerifC05Docs
	vHarnesses["VerifC05Precision"] = VerifC05Precision
	vHarnesses["VerifC05Nulls"] = VerifC05Nulls
	vHarnesses["VerifC05Keys2"] = VerifC05Keys2
	vHarnesses["VerifC05KeyArr"] = VerifC05KeyArr
}

// VerifC05Nulls: documents with null members / elements under every option set, merge included
// (C05 is stated for every a and b; only C01/C11 restrict merge to null-free documents).
func VerifC05Nulls() {
	k := vOptChoice(0x77)
	gen := func() JsonNode {
		if vChoice(2) == 0 {
			o := jsonObject{}
			for _, key := range []string{"a", "b"} {
				switch vChoice(4) {
				case 1:
					o[key] = vNum()
				case 2:
					o[key] = jsonNull(nil)
				case 3:
					o[key] = jsonObject{"c": jsonNull(nil)}
				}
			}
			return o
		}
		n := vChoice(vParam("N", 2) + 1)
		arr := make(jsonArray, n)
		for i := range arr {
			if vChoice(2) == 0 {
				arr[i] = vNum()
			} else {
				arr[i] = jsonNull(nil)
			}
		}
		return arr
	}
	a, b := gen(), gen()
	opts := vOptions(k)
	if vKnown("hash.alias") {
		vAssumeNoHashAlias(a, b)
	}
	d := a.Diff(b, opts...)
	eq := a.Equals(b, opts...)
	vAssert((len(d) == 0) == eq, "diff emptiness disagrees with Equals (documents with nulls)")
	vCover("c05.nulls." + optName(k))
}

// VerifC05Precision: list mode with Precision(eps): the diff is empty exactly when Equals holds.
func VerifC05Precision() {
	eps := vF64()
	vAssume(eps >= 0)
	var a, b JsonNode
	switch vChoice(3) {
	case 0:
		a, b = vNum(), vNum()
	case 1:
		a, b = jsonObject{"k": vNum()}, jsonObject{"k": vNum()}
	default:
		n := vParam("N", 1)
		a, b = vNumArray(n), vNumArray(n)
	}
	opts := []Option{Precision(eps)}
	eq := a.Equals(b, opts...)
	if vKnown("precision.diff") {
		// listed finding: Diff compares numbers exactly (scalar compare without options, hash-based LCS)
		vAssume(eq == a.Equals(b))
	}
	d := a.Diff(b, opts...)
	vAssert((len(d) == 0) == eq, "diff emptiness disagrees with Equals under Precision")
	vCover("c05.precision")
}

func vC05Check(a, b JsonNode, k int, label string) {
	opts := vOptions(k)
	if vKnown("hash.alias") {
		vAssumeNoHashAlias(a, b)
	}
	if isMergeOpt(k) {
		vAssume(!vHasNull(a) && !vHasNull(b))
	}
	d := a.Diff(b, opts...)
	eq := a.Equals(b, opts...)
	vObserve("empty", len(d) == 0)
	vObserve("equals", eq)
	vAssert((len(d) == 0) == eq, "diff emptiness disagrees with Equals")
	vCover(label + "." + optName(k))
}

// VerifC05Nest: arrays holding numbers, arrays and objects (nested lists / sets / bags).
func VerifC05Nest() {
	k := vOptChoice(0x77)
	n := vParam("N", 2)
	how := [...]int{0, 1}[vChoice(vParam("WRAPS", 1))]
	vC05Check(vWrap(vNestArray(n), how), vWrap(vNestArray(n), how), k, "c05.nest")
}

// VerifC05Docs: objects, scalars and void, keyed arrays.
func VerifC05Docs() {
	switch vChoice(3) {
	case 0:
		vC05Check(vObjDoc(0), vObjDoc(0), vOptChoice(0x77), "c05.obj")
	case 1:
		vC05Check(vScalarOrVoid(), vScalarOrVoid(), vOptChoice(0x77), "c05.void")
	default:
		vC05Check(vKeyedArray(1), vKeyedArray(1), optSetKeys, "c05.keyed")
	}
}

// VerifC05Flat: the diff is empty exactly when the documents are equal.
func VerifC05Flat() {
	k := vOptChoice(0x77)
	opts := vOptions(k)
	n := vParam("N", 2)
	a := vNumArray(n)
	b := vNumArray(n)
	if vKnown("num.negzero") {
		vAssumeNoNegZero(a)
		vAssumeNoNegZero(b)
	}
	d := a.Diff(b, opts...)
	eq := a.Equals(b, opts...)
	vObserve("empty", len(d) == 0)
	vObserve("equals", eq)
	vAssert((len(d) == 0) == eq, "diff emptiness disagrees with Equals")
	vCover("c05.flat." + optName(k))
}

// VerifC05Keys2: arrays of objects under SetKeys("a","b") (two keys; members may lack one of
// them, values may be exchanged between the keys), with and without SET.
func VerifC05Keys2() {
	mk := func() jsonArray {
		arr := make(jsonArray, vChoice(vParam("N", 1)+1))
		for i := range arr {
			o := jsonObject{}
			for _, k := range []string{"a", "b", "c"} {
				if vChoice(2) == 1 {
					o[k] = vNum()
				}
			}
			arr[i] = o
		}
		return arr
	}
	a, b := mk(), mk()
	opts := []Option{SetKeys("a", "b")}
	if vChoice(2) == 1 {
		opts = []Option{SET, SetKeys("a", "b")}
	}
	if vKnown("hash.alias") {
		vAssumeNoHashAlias(a, b)
	}
	d := a.Diff(b, opts...)
	eq := a.Equals(b, opts...)
	vObserve("empty", len(d) == 0)
	vObserve("equals", eq)
	vAssert((len(d) == 0) == eq, "diff emptiness disagrees with Equals (two set keys)")
	vCover("c05.keys2")
}

// VerifC05KeyArr: SetKeys("id") where the identifying value is itself a container (a two-element
// array, bare or inside an object): under the set reading [x,y] and [y,x] are the same identity,
// so documents differing only in that spelling are Equal and must diff to nothing; Equals is
// checked against the reference equality too.
func VerifC05KeyArr() {
	mk := func() jsonArray {
		arr := make(jsonArray, vChoice(vParam("N", 1)+1))
		for i := range arr {
			var id JsonNode = jsonArray{vNum(), vNum()}
			if vChoice(2) == 1 {
				id = jsonObject{"t": id}
			}
			o := jsonObject{"id": id}
			if vChoice(2) == 1 {
				o["v"] = vNum()
			}
			arr[i] = o
		}
		return arr
	}
	a, b := mk(), mk()
	opts := []Option{SetKeys("id")}
	if vKnown("hash.alias") {
		vAssumeNoHashAlias(a, b)
	}
	d := a.Diff(b, opts...)
	eq := a.Equals(b, opts...)
	vObserve("empty", len(d) == 0)
	vObserve("equals", eq)
	vAssert(eq == refEq(a, b, modeSet, 0), "Equals under SetKeys disagrees with the reference set equality")
	vAssert((len(d) == 0) == eq, "diff emptiness disagrees with Equals (container-valued set key)")
	vCover("c05.keyarr")
}
