//go:build verif

package jd

func init() {
	vHarnesses["VerifC05Flat"] = VerifC05Flat
}

// VerifC05Flat: the diff is empty exactly when the documents are equal.
func VerifC05Flat() {
	k := vChoice(optCount)
	vAssume(k != optSetKeys)
	opts := vOptions(k)
	n := vParam("N", 2)
	a := vNumArray(n)
	b := vNumArray(n)
	if vKnown("num.negzero") {
		vAssumeNoNegZero(a)
		vAssumeNoNegZero(b)
	}
	d := a.Diff(b, opts...)
	eq := a.Equals(b, opts...)
	vObserve("empty", len(d) == 0)
	vObserve("equals", eq)
	vAssert((len(d) == 0) == eq, "diff emptiness disagrees with Equals")
	vCover("c05.flat." + optName(k))
}
