//go:build verif

package jd

func init() {
	vHarnesses["VerifC03Hunk"] = VerifC03Hunk
	vHarnesses["VerifC03Sub"] = VerifC03Sub
	vHarnesses["VerifC03Canary"] = VerifC03Canary
	vHarnesses["VerifC03SubObj"] = VerifC03SubObj
	vHarnesses["VerifC03ObjHunk"] = VerifC03ObjHunk
}

func vSmallVal() JsonNode {
	switch vChoice(4) {
	case 0:
		return vNum()
	case 1:
		return vNumArray(1)
	case 2:
		return jsonObject{"x": vNum()}
	default:
		return jsonObject{}
	}
}

// VerifC03ObjHunk: a hand-written strict hunk addressed to an object member, a nested member,
// the root, or a member below an array element, against targets where the member is absent,
// present with a matching or a non-matching value.
func VerifC03ObjHunk() {
	var cur JsonNode = voidNode{}
	has := vChoice(2) == 1
	if has {
		cur = vSmallVal()
	}
	where := vChoice(7)
	var doc JsonNode
	var path Path
	switch where {
	case 4: // the parent member may be missing as well
		o := jsonObject{"z": vNum()}
		if vChoice(2) == 1 {
			inner := jsonObject{}
			if has {
				inner["k"] = cur
			}
			o["p"] = inner
		}
		doc, path = o, Path{PathKey("p"), PathKey("k")}
	case 5: // missing parent below an array position
		o := jsonObject{}
		if vChoice(2) == 1 {
			inner := jsonObject{}
			if has {
				inner["k"] = cur
			}
			o["p"] = inner
		}
		doc, path = jsonArray{vNum(), o}, Path{PathIndex(1), PathKey("p"), PathKey("k")}
	case 6: // up to two missing ancestors
		o := jsonObject{"z": vNum()}
		switch vChoice(3) {
		case 1:
			o["p"] = jsonObject{}
		case 2:
			inner := jsonObject{}
			if has {
				inner["k"] = cur
			}
			o["p"] = jsonObject{"q": inner}
		}
		doc, path = o, Path{PathKey("p"), PathKey("q"), PathKey("k")}
	case 0: // the root itself
		doc, path = cur, Path{}
	case 1:
		o := jsonObject{"z": vNum()}
		if has {
			o["k"] = cur
		}
		doc, path = o, Path{PathKey("k")}
	case 2:
		inner := jsonObject{}
		if has {
			inner["k"] = cur
		}
		doc, path = jsonObject{"p": inner}, Path{PathKey("p"), PathKey("k")}
	default:
		inner := jsonObject{}
		if has {
			inner["k"] = cur
		}
		doc, path = jsonArray{vNum(), inner}, Path{PathIndex(1), PathKey("k")}
	}
	var R, A []JsonNode
	if vChoice(2) == 1 {
		R = []JsonNode{vSmallVal()}
	}
	if vChoice(2) == 1 {
		A = []JsonNode{vSmallVal()}
	}
	vAssume(len(R)+len(A) > 0)
	if vKnown("hash.alias") {
		vAssumeNoHashAlias(doc, doc)
	}
	orig := vClone(doc)
	p, err := vClone(doc).Patch(Diff{{Path: path, Remove: R, Add: A}})
	wantOk, want := refApplyStrict(orig, path, nil, R, A, nil)
	vObserve("err", err != nil)
	vAssert((err == nil) == wantOk, "strict member/root hunk accepted/rejected against the reference semantics")
	if err == nil {
		vAssert(refEq(p, want, modeList, 0), "strict member/root hunk applied with a result other than the reference result")
	}
	vCover("c03.objhunk." + [...]string{"root", "key", "nested", "key-in-array", "parent-missing", "parent-missing-in-array", "ancestors-missing"}[where])
}

// VerifC03SubObj: sub-sequences of the hunks of an object diff (members: absent / number /
// small array / nested object) applied to a, b and perturbed targets (a key dropped, changed,
// an array member shortened).
func VerifC03SubObj() {
	a, b := vObjDoc(0), vObjDoc(0)
	if vKnown("hash.alias") {
		vAssumeNoHashAlias(a, b)
	}
	d := a.Diff(b)
	c := vClone(a).(jsonObject)
	switch vChoice(5) {
	case 0:
	case 1:
		c = vClone(b).(jsonObject)
	case 2:
		delete(c, "a")
	case 3:
		c["b"] = vNum()
	default:
		if arr, ok := c["a"].(jsonArray); ok && len(arr) > 0 {
			c["a"] = arr[1:]
		} else {
			c["a"] = jsonArray{vNum()}
		}
	}
	var kept Diff
	for _, h := range d {
		if vBool() {
			kept = append(kept, h)
		}
	}
	var want JsonNode = vClone(c)
	wantOk := true
	for _, h := range kept {
		ok, r := refApplyStrict(want, h.Path, h.Before, h.Remove, h.Add, h.After)
		if vOr(!ok, false) {
			wantOk = false
			break
		}
		want = r
	}
	p, err := vClone(c).Patch(kept)
	vAssert((err == nil) == wantOk, "sub-diff of an object diff accepted/rejected against the reference semantics")
	if err == nil {
		vAssert(refEq(p, want, modeList, 0), "sub-diff of an object diff applied with a result other than the reference result")
	}
	vCover("c03.subobj")
}

// refListHunk: reference semantics of one strict list hunk at index i on array c
// (DESIGN.md appendix A). marker = voidNode.
func refListHunk(c []JsonNode, i int, B, R, A, F []JsonNode) (bool, []JsonNode) {
	if i < 0 || i+len(R) > len(c) {
		return false, nil
	}
	ok := true
	for k := range R {
		ok = vAnd(ok, refEq(c[i+k], R[k], modeList, 0))
	}
	for j := range B {
		pos := i - len(B) + j
		if isVoid(B[j]) {
			if pos != -1 {
				return false, nil
			}
			continue
		}
		if pos < 0 {
			return false, nil
		}
		ok = vAnd(ok, refEq(c[pos], B[j], modeList, 0))
	}
	for j := range F {
		pos := i + len(R) + j
		if isVoid(F[j]) {
			if pos != len(c) {
				return false, nil
			}
			continue
		}
		if pos >= len(c) {
			return false, nil
		}
		ok = vAnd(ok, refEq(c[pos], F[j], modeList, 0))
	}
	res := make([]JsonNode, 0, len(c)+len(A))
	res = append(res, c[:i]...)
	res = append(res, A...)
	res = append(res, c[i+len(R):]...)
	return ok, res
}

// vContext: absent, boundary marker, one value, marker+value / two values.
// vC03Elem: an array element / expected value. ELEMS=0: a number. ELEMS=1: a number, an object
// with one or two members (so that one expectation's members can be a proper subset or superset
// of the document's), a one-element array or {}.
func vC03Elem() JsonNode {
	if vParam("ELEMS", 0) == 0 {
		return vNum()
	}
	switch vChoice(5) {
	case 0:
		return vNum()
	case 1:
		return jsonObject{"id": vNum()}
	case 2:
		return jsonObject{"id": vNum(), "name": vNum()}
	case 3:
		return jsonArray{vNum()}
	default:
		return jsonObject{}
	}
}

func vContext(max int, before bool) []JsonNode {
	switch vChoice(2 + max) {
	case 0:
		return []JsonNode{}
	case 1:
		return []JsonNode{voidNode{}}
	case 2:
		return []JsonNode{vC03Elem()}
	default:
		if vChoice(2) == 0 {
			return []JsonNode{vC03Elem(), vC03Elem()}
		}
		if before {
			return []JsonNode{voidNode{}, vC03Elem()}
		}
		return []JsonNode{vC03Elem(), voidNode{}}
	}
}

func vNums(max int) []JsonNode {
	n := vChoice(max + 1)
	out := make([]JsonNode, n)
	for i := range out {
		out[i] = vC03Elem()
	}
	return out
}

// VerifC03Hunk: a hand-written strict hunk with a symbolic index against an array of
// leaves at the root / under a key / inside an array / under a key inside an array.
func VerifC03Hunk() {
	n := vChoice(vParam("N", 2) + 1)
	c := make(jsonArray, n)
	for i := range c {
		c[i] = vC03Elem()
	}
	orig := vClone(c).(jsonArray)
	how := [...]int{0, 1, 2, 3}[vChoice(vParam("WRAPS", 4))]
	doc := vWrap(c, how)
	i := vInt(-2, n+2)
	vAssume(i != -1) // -1 is jd's append sentinel (exercised in C10)
	var path Path
	switch how {
	case 0:
		path = Path{PathIndex(i)}
	case 1:
		path = Path{PathKey("k"), PathIndex(i)}
	case 2:
		path = Path{PathIndex(0), PathIndex(i)}
	default:
		path = Path{PathIndex(0), PathKey("k"), PathIndex(i)}
	}
	cx := vParam("CTX", 1)
	B := vContext(cx, true)
	F := vContext(cx, false)
	R := vNums(vParam("RM", 1))
	A := vNums(vParam("AD", 1))
	vAssume(len(R)+len(A) > 0)
	d := Diff{{Path: path, Before: B, Remove: R, Add: A, After: F}}
	if vKnown("ctx.nested") && how != 0 {
		// listed finding: context lines are not checked below the root
		vAssume(len(B) == 0 && len(F) == 0)
	}
	p, err := doc.Patch(d)
	wantOk, want := refListHunk([]JsonNode(orig), i, B, R, A, F)
	vObserve("err", err != nil)
	if err == nil {
		vObserve("patched", p.Json())
	}
	vAssert((err == nil) == wantOk, "strict hunk accepted/rejected against the reference semantics")
	if err == nil {
		vAssert(refEq(p, vWrap(jsonArray(want), how), modeList, 0), "strict hunk applied with a result other than the reference result")
	}
	vCover("c03.hunk." + [...]string{"root", "key", "index", "key-in-array"}[how])
}

// refApplyStrict: reference application of a strict list-mode hunk anywhere in a document.
func refApplyStrict(doc JsonNode, path Path, B, R, A, F []JsonNode) (bool, JsonNode) {
	if len(path) == 0 {
		if len(R) > 1 || len(A) > 1 {
			return false, nil
		}
		var want JsonNode = voidNode{}
		if len(R) == 1 {
			want = R[0]
		}
		var res JsonNode = voidNode{}
		if len(A) == 1 {
			res = A[0]
		}
		return refEq(doc, want, modeList, 0), res
	}
	switch pe := path[0].(type) {
	case PathKey:
		o, isObj := doc.(jsonObject)
		if !isObj {
			return false, nil
		}
		child, has := o[string(pe)]
		if !has {
			if len(path) > 1 {
				return false, nil
			}
			child = voidNode{}
		}
		var ok bool
		var r JsonNode
		if len(path) == 1 {
			ok, r = refApplyStrict(child, nil, nil, R, A, nil)
		} else {
			ok, r = refApplyStrict(child, path[1:], B, R, A, F)
		}
		out := jsonObject{}
		for k, v := range o {
			out[k] = v
		}
		if r != nil && !isVoid(r) {
			out[string(pe)] = r
		} else {
			delete(out, string(pe))
		}
		return ok, out
	case PathIndex:
		xs, isArr := refArr(doc)
		if !isArr {
			return false, nil
		}
		i := int(pe)
		if len(path) > 1 {
			if i < 0 || i >= len(xs) {
				return false, nil
			}
			ok, r := refApplyStrict(xs[i], path[1:], B, R, A, F)
			out := make(jsonArray, len(xs))
			copy(out, xs)
			out[i] = r
			return ok, out
		}
		ok, r := refListHunk(xs, i, B, R, A, F)
		return ok, jsonArray(r)
	}
	return false, nil
}

// VerifC03Sub: any sub-sequence of the hunks of a generated diff, applied to a, b and
// perturbations of a.
func VerifC03Sub() {
	n := vParam("N", 2)
	a := vNumArray(n)
	b := vNumArray(n)
	how := [...]int{0, 1}[vChoice(vParam("WRAPS", 2))]
	if vKnown("hash.alias") {
		vAssumeNoHashAlias(a, b)
	}
	d := vWrap(a, how).Diff(vWrap(b, how))
	// target: a, b, a with an element dropped / duplicated / replaced, a rotated
	var c jsonArray
	switch vChoice(6) {
	case 0:
		c = vClone(a).(jsonArray)
	case 1:
		c = vClone(b).(jsonArray)
	case 2:
		vAssume(len(a) > 0)
		c = append(jsonArray{}, a[1:]...)
	case 3:
		vAssume(len(a) > 0)
		c = append(jsonArray{a[0]}, a...)
	case 4:
		vAssume(len(a) > 0)
		c = vClone(a).(jsonArray)
		c[len(c)-1] = vNum()
	default:
		vAssume(len(a) > 1)
		c = append(append(jsonArray{}, a[1:]...), a[0])
	}
	var kept Diff
	for _, h := range d {
		if vBool() {
			kept = append(kept, h)
		}
	}
	if vKnown("ctx.nested") && how != 0 {
		for i := range kept {
			kept[i].Before, kept[i].After = nil, nil
		}
	}
	var want JsonNode = vWrap(vClone(c), how)
	wantOk := true
	for _, h := range kept {
		if !wantOk {
			break
		}
		ok, r := refApplyStrict(want, h.Path, h.Before, h.Remove, h.Add, h.After)
		if vOr(!ok, false) {
			wantOk = false
			break
		}
		want = r
	}
	p, err := vWrap(c, how).Patch(kept)
	vAssert((err == nil) == wantOk, "sub-diff accepted/rejected against the reference semantics")
	if err == nil {
		vAssert(refEq(p, want, modeList, 0), "sub-diff applied with a result other than the reference result")
	}
	vCover("c03.sub." + [...]string{"root", "key"}[how])
}

// VerifC03Canary must be violated.
func VerifC03Canary() {
	c := jsonArray{vNum(), vNum()}
	d := Diff{{Path: Path{PathIndex(vInt(0, 1))}, Remove: []JsonNode{vNum()}}}
	_, err := c.Patch(d)
	vAssert(err != nil, "canary: a remove hunk never applies")
}
