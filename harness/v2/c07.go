//go:build verif

package jd

func init() {
	vHarnesses["VerifC07List"] = VerifC07List
	vHarnesses["VerifC07Obj"] = VerifC07Obj
	vHarnesses["VerifC07Set"] = VerifC07Set
	vHarnesses["VerifC07Merge"] = VerifC07Merge
	vHarnesses["VerifC07MergeNulls"] = VerifC07MergeNulls
	vHarnesses["VerifC07Canary"] = VerifC07Canary
	vHarnesses["VerifC07Keyed"] = VerifC07Keyed
	vHarnesses["VerifC07Deep"] = VerifC07Deep
}

// VerifC07Deep: objects over the keys a,b,c (each absent, a number or a one-element array, so
// that members change value, kind, appear and disappear) below a chain of keys / array
// positions of every length up to DEPTH: the hunk-level claims at every path length and spare
// path capacity, strict and merge.
func VerifC07Deep() {
	depth := vChoice(vParam("DEPTH", 7) + 1)
	mk := func() jsonObject {
		o := jsonObject{}
		for _, k := range []string{"a", "b", "c"}[:vParam("KEYS", 2)] {
			switch vChoice(3) {
			case 1:
				o[k] = vNum()
			case 2:
				o[k] = jsonArray{vNum()}
			}
		}
		return o
	}
	var a, b JsonNode = mk(), mk()
	for i := 0; i < depth; i++ {
		if vParam("CHAINKINDS", 1) > 1 && vChoice(2) == 1 {
			a, b = jsonArray{a}, jsonArray{b}
		} else {
			a, b = jsonObject{"p": a}, jsonObject{"p": b}
		}
	}
	if vKnown("hash.alias") {
		vAssumeNoHashAlias(a, b)
	}
	if vChoice(2) == 0 {
		vC07ObjCheck(a, b)
		vCover("c07.deep.strict")
	} else {
		vC07MergeCheck(a, b)
		vCover("c07.deep.merge")
	}
}

// VerifC07Keyed: SetKeys("id") diffs: a member present on both sides (same id) is never removed
// and re-added — its changes are nested hunks that replace a's value by b's —, members listed
// under - / + exist only on that side, and no hunk is redundant.
func VerifC07Keyed() {
	n, m := vParam("N", 2), vParam("M", 1)
	a, b := vKeyedArray(n), vKeyedArray(m)
	if vKnown("hash.alias") {
		vAssumeNoHashAlias(a, b)
	}
	opts := []Option{SetKeys("id")}
	d := a.Diff(b, opts...)
	hasID := func(arr jsonArray, id JsonNode) bool {
		found := false
		for _, e := range arr {
			found = vOr(found, refEq(e.(jsonObject)["id"], id, modeList, 0))
		}
		return found
	}
	for _, h := range d {
		vAssert(len(h.Remove)+len(h.Add) > 0, "hunk removes and adds nothing")
		if len(h.Path) == 1 {
			// the {} hunk: whole members
			for _, r := range h.Remove {
				vAssert(hasID(a, r.(jsonObject)["id"]), "removed member is not in a")
				vAssert(!hasID(b, r.(jsonObject)["id"]), "member removed although b has a member with that identity")
			}
			for _, x := range h.Add {
				vAssert(hasID(b, x.(jsonObject)["id"]), "added member is not in b")
				vAssert(!hasID(a, x.(jsonObject)["id"]), "member added although a has a member with that identity")
			}
			continue
		}
		// a nested hunk below a keyed member
		sk, isKeyed := h.Path[0].(PathSetKeys)
		vAssert(isKeyed, "nested hunk of a keyed set does not start with the member's keys")
		vAssert(hasID(a, sk["id"]) && hasID(b, sk["id"]), "nested hunk for a member that is not on both sides")
		vAssert(!refSeqEq(h.Remove, h.Add), "nested hunk removes exactly what it adds")
	}
	vAssert((len(d) == 0) == refEq(a, b, modeSet, 0), "hunks exist for equal documents / none for different ones")
	vLeaveOneOut(a, b, d, opts)
	vCover("c07.keyed")
}

// refGet: the sub-document at a path of keys / indices (void when absent).
func refGet(doc JsonNode, path Path) JsonNode {
	for _, pe := range path {
		switch e := pe.(type) {
		case PathKey:
			o, ok := doc.(jsonObject)
			if !ok {
				return voidNode{}
			}
			v, has := o[string(e)]
			if !has {
				return voidNode{}
			}
			doc = v
		case PathIndex:
			xs, ok := refArr(doc)
			if !ok || int(e) < 0 || int(e) >= len(xs) {
				return voidNode{}
			}
			doc = xs[int(e)]
		default:
			return voidNode{}
		}
	}
	return doc
}

func refSeqEq(x, y []JsonNode) bool {
	if len(x) != len(y) {
		return false
	}
	ok := true
	for i := range x {
		ok = vAnd(ok, refEq(x[i], y[i], modeList, 0))
	}
	return ok
}

// vLeaveOneOut: without hunk k the rest no longer turns a into b.
func vLeaveOneOut(a, b JsonNode, d Diff, opts []Option) {
	if len(d) == 0 {
		return
	}
	k := vChoice(len(d))
	var rest Diff
	for i, h := range d {
		if i != k {
			rest = append(rest, h)
		}
	}
	p, err := vClone(a).Patch(rest)
	if err == nil {
		vAssert(!p.Equals(b, opts...), "a hunk is redundant: the diff without it still turns a into b")
	}
}

// VerifC07List: strict list-mode hunks over arrays of numbers (root or under a key).
func VerifC07List() {
	n := vParam("N", 2)
	how := [...]int{0, 1}[vChoice(vParam("WRAPS", 2))]
	a, b := vNumArray(n), vNumArray(n)
	if vKnown("hash.alias") {
		vAssumeNoHashAlias(a, b)
	}
	da, db := vWrap(a, how), vWrap(b, how)
	d := da.Diff(db)
	vObserve("diff", d.Render())
	var cur JsonNode = vClone(da)
	for _, h := range d {
		// every removed value is present where the hunk says (folding over a) and context matches
		ok, next := refApplyStrict(cur, h.Path, h.Before, h.Remove, h.Add, h.After)
		vAssert(ok, "hunk removes values that are not at the addressed place in a")
		cur = next
		for _, r := range h.Remove {
			vAssert(refMember(r, []JsonNode(a), modeList, 0), "removed value is not an element of a's array")
		}
		for _, x := range h.Add {
			vAssert(refMember(x, []JsonNode(b), modeList, 0), "added value is not an element of b's array")
		}
		vAssert(len(h.Remove)+len(h.Add) > 0, "hunk removes and adds nothing")
		vAssert(!refSeqEq(h.Remove, h.Add), "hunk removes exactly what it adds")
	}
	vAssert((len(d) == 0) == refEq(da, db, modeList, 0), "hunks exist for equal documents / none for different ones")
	vLeaveOneOut(da, db, d, nil)
	vCover("c07.list." + [...]string{"root", "key"}[how])
}

// VerifC07Obj: object hunks: removed value is a's member, added value is b's member, they differ.
func VerifC07Obj() {
	dep := vParam("D", 0)
	a, b := vObjDoc(dep), vObjDoc(dep)
	if vKnown("hash.alias") {
		vAssumeNoHashAlias(a, b)
	}
	vC07ObjCheck(a, b)
	vCover("c07.obj")
}

func vC07ObjCheck(a, b JsonNode) {
	d := a.Diff(b)
	vObserve("diff", d.Render())
	for _, h := range d {
		last := h.Path[len(h.Path)-1]
		if _, isKey := last.(PathKey); isKey {
			va, vb := refGet(a, h.Path), refGet(b, h.Path)
			var r, x JsonNode = voidNode{}, voidNode{}
			vAssert(len(h.Remove) <= 1 && len(h.Add) <= 1, "object hunk with several values")
			if len(h.Remove) == 1 {
				r = h.Remove[0]
			}
			if len(h.Add) == 1 {
				x = h.Add[0]
			}
			vAssert(refEq(r, va, modeList, 0), "removed value is not a's member at that path")
			vAssert(refEq(x, vb, modeList, 0), "added value is not b's member at that path")
			vAssert(!refEq(r, x, modeList, 0), "hunk replaces a value by an equal value")
		} else {
			// list hunk inside an object: container must differ between a and b
			pa, pb := refGet(a, h.Path[:len(h.Path)-1]), refGet(b, h.Path[:len(h.Path)-1])
			vAssert(!refEq(pa, pb, modeList, 0), "hunk inside a sub-document on which a and b agree")
			vAssert(!refSeqEq(h.Remove, h.Add), "hunk removes exactly what it adds")
		}
	}
	vAssert((len(d) == 0) == refEq(a, b, modeList, 0), "hunks exist for equal documents / none for different ones")
	vLeaveOneOut(a, b, d, nil)
}

// VerifC07Set: set / multiset hunks list only members (or surplus copies) present on one side.
func VerifC07Set() {
	n := vParam("N", 2)
	k := [...]int{optSet, optMultiset}[vChoice(2)]
	mode := modeSet
	if k == optMultiset {
		mode = modeMultiset
	}
	var a, b jsonArray
	if vParam("NESTED", 0) == 1 {
		// members are numbers or small arrays (read as sets / bags themselves)
		a, b = make(jsonArray, vChoice(n+1)), make(jsonArray, vChoice(n+1))
		for i := range a {
			a[i] = vNumOrArr()
		}
		for i := range b {
			b[i] = vNumOrArr()
		}
	} else {
		a, b = vNumArray(n), vNumArray(n)
	}
	if vKnown("hash.alias") {
		vAssumeNoHashAlias(a, b)
	}
	opts := vOptions(k)
	d := a.Diff(b, opts...)
	vAssert(len(d) <= 1, "set diff of flat arrays has more than one hunk")
	for _, h := range d {
		vAssert(len(h.Remove)+len(h.Add) > 0, "hunk removes and adds nothing")
		for _, r := range h.Remove {
			ca, cb := refCount(r, []JsonNode(a), mode, 0), refCount(r, []JsonNode(b), mode, 0)
			if mode == modeSet {
				vAssert(ca > 0 && cb == 0, "set hunk removes a value that is not only in a")
				vAssert(refCount(r, h.Remove, mode, 0) == 1, "set hunk removes a value twice")
			} else {
				vAssert(refCount(r, h.Remove, mode, 0) == ca-cb, "multiset hunk does not remove exactly the surplus copies")
			}
		}
		for _, x := range h.Add {
			ca, cb := refCount(x, []JsonNode(a), mode, 0), refCount(x, []JsonNode(b), mode, 0)
			if mode == modeSet {
				vAssert(cb > 0 && ca == 0, "set hunk adds a value that is not only in b")
				vAssert(refCount(x, h.Add, mode, 0) == 1, "set hunk adds a value twice")
			} else {
				vAssert(refCount(x, h.Add, mode, 0) == cb-ca, "multiset hunk does not add exactly the missing copies")
			}
		}
	}
	vAssert((len(d) == 0) == refEq(a, b, mode, 0), "hunks exist for equal documents / none for different ones")
	vLeaveOneOut(a, b, d, opts)
	vCover("c07.set." + optName(k))
}

func vNumOrArr() JsonNode {
	if vChoice(2) == 0 {
		return vNum()
	}
	return vNumArray(2)
}

// VerifC07Merge: merge hunks carry b's value (void for a deleted key) and differ from a's.
func VerifC07Merge() {
	dep := vParam("D", 0)
	a, b := vObjDoc(dep), vObjDoc(dep)
	if vKnown("hash.alias") {
		vAssumeNoHashAlias(a, b)
	}
	vC07MergeCheck(a, b)
	vCover("c07.merge")
}

func vC07MergeCheck(a, b JsonNode) {
	d := a.Diff(b, MERGE)
	for _, h := range d {
		vAssert(h.Metadata.Merge, "merge-mode hunk without merge metadata")
		vAssert(len(h.Remove) == 0 && len(h.Add) == 1, "merge hunk must carry exactly one added value and nothing removed")
		va, vb := refGet(a, h.Path), refGet(b, h.Path)
		vAssert(refEq(h.Add[0], vb, modeList, 0), "merge hunk does not carry b's value (void for an absent key)")
		vAssert(!refEq(va, vb, modeList, 0), "merge hunk for a sub-document on which a and b agree")
	}
	vAssert((len(d) == 0) == refEq(a, b, modeList, 0), "hunks exist for equal documents / none for different ones")
	vLeaveOneOut(a, b, d, []Option{MERGE})
}

// VerifC07MergeNulls: merge diffs of documents in which a holds null members that b keeps,
// replaces or drops (b has a null only where a has the same one, so the diff is expressible).
func VerifC07MergeNulls() {
	oa, ob := jsonObject{}, jsonObject{}
	for _, k := range []string{"a", "b", "c"} {
		switch vChoice(3) {
		case 0: // absent in a
			if vChoice(2) == 1 {
				ob[k] = vNum()
			}
		case 1: // a number in a
			oa[k] = vNum()
			switch vChoice(3) {
			case 0:
			case 1:
				ob[k] = oa[k]
			default:
				ob[k] = vNum()
			}
		default: // null in a
			oa[k] = jsonNull(nil)
			switch vChoice(3) {
			case 0:
			case 1:
				ob[k] = jsonNull(nil)
			default:
				ob[k] = vNum()
			}
		}
	}
	var a, b JsonNode = oa, ob
	if vChoice(2) == 1 {
		a, b = jsonObject{"x": oa, "y": vNum()}, jsonObject{"x": ob}
	}
	if vKnown("hash.alias") {
		vAssumeNoHashAlias(a, b)
	}
	d := a.Diff(b, MERGE)
	vObserve("diff", d.Render())
	for _, h := range d {
		vAssert(h.Metadata.Merge, "merge-mode hunk without merge metadata")
		vAssert(len(h.Remove) == 0 && len(h.Add) == 1, "merge hunk must carry exactly one added value and nothing removed")
		va, vb := refGet(a, h.Path), refGet(b, h.Path)
		vAssert(refEq(h.Add[0], vb, modeList, 0), "merge hunk does not carry b's value (void for an absent key)")
		vAssert(!refEq(va, vb, modeList, 0), "merge hunk for a sub-document on which a and b agree")
	}
	for i := range d {
		for j := 0; j < i; j++ {
			vAssert(!d[i].Path.JsonNode().Equals(d[j].Path.JsonNode()), "two merge hunks address the same path")
		}
	}
	vAssert((len(d) == 0) == refEq(a, b, modeList, 0), "hunks exist for equal documents / none for different ones")
	vCover("c07.mergenulls")
}

// VerifC07Canary must be violated.
func VerifC07Canary() {
	a, b := vNumArray(2), vNumArray(2)
	d := a.Diff(b)
	for _, h := range d {
		vAssert(len(h.Add) == 0, "canary: nothing is ever added")
	}
}
