//go:build verif

package jd

func init() {
	vHarnesses["VerifC11Merge"] = VerifC11Merge
	vHarnesses["VerifC11Canary"] = VerifC11Canary
	vHarnesses["VerifC11Deep"] = VerifC11Deep
}

// VerifC11Deep: small objects below a chain of keys of every length up to DEPTH.
func VerifC11Deep() {
	depth := vChoice(vParam("DEPTH", 7) + 1)
	var a, b JsonNode = vSmallObj(), vSmallObj()
	for i := 0; i < depth; i++ {
		a, b = jsonObject{"p": a}, jsonObject{"p": b}
	}
	vAssume(!refEq(a, b, modeList, 0))
	d := a.Diff(b, MERGE)
	s, err := d.RenderMerge()
	vAssert(err == nil, "RenderMerge failed on a merge-mode diff")
	vObserve("merge", s)
	p, err := ReadJsonString(s)
	vAssert(err == nil, "rendered merge patch is not valid JSON")
	vAssert(refEq(ref7386(a, p), b, modeList, 0), "MergePatch(a, rendered patch) differs from b")
	vCover("c11.deep")
}

// VerifC11Merge: the rendered JSON Merge Patch, applied to a by the RFC 7386 algorithm, gives b.
func VerifC11Merge() {
	k := [...]int{optMerge, optSetMerge, optMultisetMerge}[vChoice(vParam("OPTN", 3))]
	mode := modeList
	if k == optSetMerge {
		mode = modeSet
	} else if k == optMultisetMerge {
		mode = modeMultiset
	}
	var a, b JsonNode
	switch vChoice(vParam("ROOTS", 3)) {
	case 0:
		a, b = vObjDoc(vParam("D", 0)), vObjDoc(vParam("D", 0))
	case 1: // object <-> scalar / array at the root
		a, b = vObjDoc(0), vNum()
		if vChoice(2) == 1 {
			b = vNumArray(1)
		}
		if vChoice(2) == 1 {
			a, b = b, a
		}
	default: // arrays / scalars at the root
		a, b = vNumArray(2), vNumArray(2)
	}
	if vKnown("hash.alias") {
		vAssumeNoHashAlias(a, b)
	}
	opts := vOptions(k)
	vAssume(!refEq(a, b, mode, 0))
	d := a.Diff(b, opts...)
	s, err := d.RenderMerge()
	vAssert(err == nil, "RenderMerge failed on a merge-mode diff")
	vObserve(vObsLabel(k, "merge"), s)
	p, err := ReadJsonString(s)
	vAssert(err == nil, "rendered merge patch is not valid JSON")
	got := ref7386(a, p)
	vAssert(refEq(got, b, mode, 0), "MergePatch(a, rendered patch) differs from b")
	vCover("c11.merge." + optName(k))
}

// VerifC11Canary must be violated.
func VerifC11Canary() {
	a, b := vObjDoc(0), vObjDoc(0)
	s, _ := a.Diff(b, MERGE).RenderMerge()
	p, _ := ReadJsonString(s)
	vAssert(refEq(ref7386(a, p), a, modeList, 0), "canary: merge patches never change anything")
}
