//go:build verif

package jd

func init() {
	vHarnesses["VerifC13PatchLib"] = VerifC13PatchLib
	vHarnesses["VerifC13ReadLib"] = VerifC13ReadLib
}

// vC13PathElem: one element of a v1 path: a number (any finite float: negative, fractional,
// 1e300), a key, a set / keyed-set index object, or a metadata array.
func vC13PathElem(kinds int) JsonNode {
	switch vChoice(kinds) {
	case 0:
		if vParam("RENDER", 0) == 1 {
			return jsonNumber(vInt(-3, 4)) // rendered through strconv.Itoa: small integers
		}
		return jsonNumber(vF64())
	case 1:
		return jsonString("k")
	case 2:
		return jsonObject{}
	case 3:
		return jsonObject{"id": vNum()}
	case 4:
		return jsonArray{jsonString([...]string{"set", "multiset", "MERGE", "setkeys=id", "bogus"}[vChoice(5)])}
	default:
		return jsonStringOrInteger([...]string{"0", "1", "7", "-1", "-3"}[vChoice(5)])
	}
}

func vC13TargetLib() JsonNode {
	switch vChoice(6) {
	case 0:
		return vNumArray(2)
	case 1:
		return jsonObject{"k": vNumArray(1)}
	case 2:
		return jsonArray{jsonObject{"id": vNum(), "k": vNum()}}
	case 3:
		return vNum()
	case 4:
		return voidNode{}
	default:
		return jsonArray{vNumArray(1)}
	}
}

func vC13Vals(max int) []JsonNode {
	n := vChoice(max + 1)
	out := make([]JsonNode, n)
	for i := range out {
		out[i] = vNum()
	}
	return out
}

// VerifC13PatchLib: v1: a diff with an arbitrary path (every element kind, any finite float as
// an index) against an arbitrary small target: Patch and the renderers return a value or an
// error and never panic (through the top-level binary with -v2=false a panic is a stack trace).
func VerifC13PatchLib() {
	n := 1 + vChoice(vParam("PLEN", 2))
	p := make([]JsonNode, n)
	for i := range p {
		p[i] = vC13PathElem(vParam("PKINDS", 6))
	}
	h := DiffElement{Path: p, OldValues: vC13Vals(vParam("RM", 1)), NewValues: vC13Vals(vParam("AD", 1))}
	d := Diff{h}
	t := vC13TargetLib()
	r, err := t.Patch(d)
	vAssert(err != nil || r != nil, "v1 Patch returned neither a document nor an error")
	if err == nil {
		vObserve("~result", r.Json())
	}
	if vParam("RENDER", 0) == 1 {
		_ = d.Render()
		s1, e1 := d.RenderPatch()
		vAssert(e1 != nil || len(s1) > 0, "v1 RenderPatch returned neither text nor an error")
		_, _ = d.RenderMerge()
	}
	vCover("c13.lib.patch")
}

// VerifC13ReadLib: v1 readers on hand-written texts with unusual paths, followed by Patch.
func VerifC13ReadLib() {
	texts := [...]string{
		"@ [-3]\n- 3\n", "@ [-2]\n+ 3\n", "@ [1e300]\n- 3\n", "@ [0.5]\n- 1\n+ 2\n", "@ [7]\n- 3\n+ 4\n", "@ [\"k\",-5]\n- 1\n",
		"@ [[\"set\"],{}]\n- 1\n", "@ [[\"multiset\"],{}]\n- 1\n- 1\n", "@ [[\"MERGE\"],-4]\n+ 1\n", "@ [{\"id\":1},-9]\n- 1\n", "@ [[\"set\",\"setkeys=id\"],{\"id\":1},\"k\"]\n- 1\n+ 2\n",
		"@ [[],0]\n- 1\n", "@ [[\"bogus\"]]\n+ 1\n", "@ []\n- 1\n- 2\n", "@ [0,-7]\n+ 1\n", "@ [{}]\n+ 1\n",
	}
	patches := [...]string{
		`[{"op":"add","path":"/0","value":1}]`, `[{"op":"add","path":"/-","value":1}]`, `[{"op":"add","path":"/-3","value":1}]`, `[{"op":"add","path":"/9","value":1}]`,
		`[{"op":"test","path":"/0","value":1}]`, `[{"op":"remove","path":"/0"}]`, `[{"op":"remove","path":"/-","value":1}]`, `[{"op":"bogus","path":"/0"}]`, `{}`, `[1]`, `[{}]`,
		`[{"op":"test","path":"/0","value":1},{"op":"remove","path":"/1","value":1}]`, `[{"op":"test","path":"/k/0","value":1},{"op":"remove","path":"/k/0","value":1},{"op":"add","path":"/k/0","value":2}]`,
		`[{"op":"add","path":"k","value":1}]`, `[{"op":"add","path":"/~2","value":1}]`, `[{"op":"add","path":"","value":1}]`, `[{"op":"remove","path":"","value":1}]`, `[{"op":"add","path":"/0/0/0","value":1}]`, `[{"op":1,"path":2,"value":3}]`,
	}
	merges := [...]string{`null`, `{}`, `1`, `[1]`, `{"k":null}`, `{"k":{"k":null}}`, `{"k":[null]}`, `{`, ``, `{"k":{}}`}
	var d Diff
	var err error
	switch vChoice(3) {
	case 0:
		d, err = ReadDiffString(texts[vChoice(len(texts))])
	case 1:
		d, err = ReadPatchString(patches[vChoice(len(patches))])
	default:
		d, err = ReadMergeString(merges[vChoice(len(merges))])
	}
	if err != nil {
		vCover("c13.lib.read")
		return
	}
	t := vC13TargetLib()
	r, perr := t.Patch(d)
	vAssert(perr != nil || r != nil, "v1 Patch of a read diff returned neither a document nor an error")
	vCover("c13.lib.read")
}
