//go:build verif

package jd

import "math"

// Reference semantics written from the property statements (DESIGN.md appendix A).
// No hashing, no jd method other than type inspection.

const (
	modeList = iota
	modeSet
	modeMultiset
)

func refArr(n JsonNode) ([]JsonNode, bool) {
	switch t := n.(type) {
	case jsonArray:
		return []JsonNode(t), true
	case jsonList:
		return []JsonNode(t), true
	case jsonSet:
		return []JsonNode(t), true
	case jsonMultiset:
		return []JsonNode(t), true
	}
	return nil, false
}

// refKind: 0 void,1 null,2 bool,3 number,4 string,5 array,6 object
func refKind(n JsonNode) int {
	switch n.(type) {
	case voidNode:
		return 0
	case jsonNull:
		return 1
	case jsonBool:
		return 2
	case jsonNumber:
		return 3
	case jsonString:
		return 4
	case jsonObject:
		return 6
	}
	if _, ok := refArr(n); ok {
		return 5
	}
	return -1
}

func refNumEq(x, y, eps float64) bool {
	if eps == 0 {
		return x == y
	}
	// |x - y| <= eps, written with the same IEEE operations as the documented definition;
	// 64-bit fp.sub queries do not finish in the solvers available (DESIGN.md section 7)
	return math.Abs(x-y) <= eps
}

func refEq(a, b JsonNode, mode int, eps float64) bool {
	ka, kb := refKind(a), refKind(b)
	if ka != kb {
		return false
	}
	switch ka {
	case 0, 1:
		return true
	case 2:
		return bool(a.(jsonBool)) == bool(b.(jsonBool))
	case 3:
		return refNumEq(float64(a.(jsonNumber)), float64(b.(jsonNumber)), eps)
	case 4:
		return string(a.(jsonString)) == string(b.(jsonString))
	case 6:
		oa, ob := a.(jsonObject), b.(jsonObject)
		if len(oa) != len(ob) {
			return false
		}
		ok := true
		for k, va := range oa {
			vb, has := ob[k]
			if !has {
				return false
			}
			ok = vAnd(ok, refEq(va, vb, mode, eps))
		}
		return ok
	case 5:
		xa, _ := refArr(a)
		xb, _ := refArr(b)
		switch mode {
		case modeList:
			if len(xa) != len(xb) {
				return false
			}
			ok := true
			for i := range xa {
				ok = vAnd(ok, refEq(xa[i], xb[i], mode, eps))
			}
			return ok
		case modeSet:
			return vAnd(refSubset(xa, xb, mode, eps), refSubset(xb, xa, mode, eps))
		default:
			if len(xa) != len(xb) {
				return false
			}
			// equal multiplicities: for every x in a, count in a == count in b
			ok := true
			for _, x := range xa {
				ok = vAnd(ok, refCountEq(x, xa, xb, mode, eps))
			}
			return ok
		}
	}
	return false
}

func refSubset(xa, xb []JsonNode, mode int, eps float64) bool {
	ok := true
	for _, x := range xa {
		ok = vAnd(ok, refMember(x, xb, mode, eps))
	}
	return ok
}

func refMember(x JsonNode, xs []JsonNode, mode int, eps float64) bool {
	found := false
	for _, y := range xs {
		found = vOr(found, refEq(x, y, mode, eps))
	}
	return found
}

// refCountEq: #{u in xa | u==x} == #{v in xb | v==x}, computed without forking for up to 4 elements
func refCountEq(x JsonNode, xa, xb []JsonNode, mode int, eps float64) bool {
	ca := refCount(x, xa, mode, eps)
	cb := refCount(x, xb, mode, eps)
	return ca == cb
}

func vB2I(b bool) int {
	// branch-free in the engine: vIte intrinsic
	return vIte(b, 1, 0)
}

func refCount(x JsonNode, xs []JsonNode, mode int, eps float64) int {
	c := 0
	for _, y := range xs {
		c += vB2I(refEq(x, y, mode, eps))
	}
	return c
}

// ref7386: RFC 7386 section 2, verbatim, on node trees (void = absent).
func ref7386(target, patch JsonNode) JsonNode {
	po, isObj := patch.(jsonObject)
	if !isObj {
		return patch
	}
	out := jsonObject{}
	if to, ok := target.(jsonObject); ok {
		for k, v := range to {
			out[k] = v
		}
	}
	for k, v := range po {
		if isNull(v) {
			delete(out, k)
			continue
		}
		var cur JsonNode = voidNode{}
		if x, has := out[k]; has {
			cur = x
		}
		out[k] = ref7386(cur, v)
	}
	return out
}

