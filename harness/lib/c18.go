//go:build verif

package jd

import "strconv"

func init() {
	vHarnesses["VerifC18Patch"] = VerifC18Patch
	vHarnesses["VerifC18Merge"] = VerifC18Merge
	vHarnesses["VerifC18Canary"] = VerifC18Canary
	vHarnesses["VerifC18Deep"] = VerifC18Deep
	vHarnesses["VerifC18Kinds"] = VerifC18Kinds
}

// vC18Small: an object over the keys c,d,e (each absent, a number, or with ARRS=1 a short array).
func vC18Small() jsonObject {
	o := jsonObject{}
	for _, key := range []string{"c", "d", "e"}[:vParam("SMALLKEYS", 2)] {
		switch vChoice(2 + vParam("ARRS", 0)) {
		case 0:
		case 1:
			o[key] = vNum()
		default:
			o[key] = vNumArray(1)
		}
	}
	return o
}

// VerifC18Deep: both renderings for documents below a chain of keys (and, for JSON Patch, array
// positions) of every length up to DEPTH: path slices of every length and spare capacity in the
// renderers and in the readers (ReadPatchString, ReadMergeString / readMergeInto).
func VerifC18Deep() {
	depth := vChoice(vParam("DEPTH", 7) + 1)
	var a, b JsonNode = vC18Small(), vC18Small()
	merge := vChoice(2) == 1
	for i := 0; i < depth; i++ {
		if !merge && vParam("CHAINKINDS", 1) > 1 && vChoice(2) == 1 {
			a, b = jsonArray{a}, jsonArray{b}
		} else {
			a, b = jsonObject{"p": a}, jsonObject{"p": b}
		}
	}
	if merge {
		vC18MergeLegs(a, b)
		vCover("c18.deep.merge")
	} else {
		vC18PatchLegs(a, b)
		vCover("c18.deep.patch")
	}
}

// VerifC18Kinds: JSON Patch legs over arrays and objects holding every scalar kind.
func VerifC18Kinds() {
	var a, b JsonNode
	if vChoice(2) == 0 {
		n := vParam("N", 2)
		a, b = vKindArray(n), vKindArray(n)
	} else {
		oa, ob := jsonObject{}, jsonObject{}
		for _, key := range []string{"a", "b"} {
			if vChoice(2) == 1 {
				oa[key] = vLeafK()
			}
			if vChoice(2) == 1 {
				ob[key] = vLeafK()
			}
		}
		a, b = oa, ob
	}
	vC18PatchLegs(a, b)
	vCover("c18.kinds")
}

var vC18Keys = [...]string{"0", "a~1b", "a/b", "10", "m~n", "k"}

// number-like keys that are not the canonical spelling of their integer
var vC18OddKeys = [...]string{"007", "+1", "-0", "00", "0", "-1"}

func vC18KeyObj(nkeys int) jsonObject {
	o := jsonObject{}
	keys := vC18Keys
	if vParam("KEYSET", 0) == 1 {
		keys = vC18OddKeys
	}
	for i := 0; i < nkeys; i++ {
		switch vChoice(3) {
		case 0:
		case 1:
			o[keys[i]] = vNum()
		default:
			o[keys[i]] = vNumArray(1)
		}
	}
	return o
}

func vC18Docs() (JsonNode, JsonNode) {
	if vParam("LONG", 0) == 1 {
		// a shared prefix of 7..10 fixed strings, then up to N numbers: two-digit indices
		k := 7 + vChoice(4)
		a, b := jsonArray{}, jsonArray{}
		for i := 0; i < k; i++ {
			s := jsonString("p" + strconv.Itoa(i))
			a, b = append(a, s), append(b, s)
		}
		n := vParam("N", 2)
		a = append(a, vNumArray(n)...)
		b = append(b, vNumArray(n)...)
		if vChoice(2) == 1 {
			return jsonObject{"k": a}, jsonObject{"k": b}
		}
		return a, b
	}
	switch vChoice(vParam("FAMS", 5)) {
	case 4:
		// an array directly inside an array (and inside that again): inner removals,
		// replacements and appends reached through an index
		n := vParam("N", 2)
		if vChoice(2) == 1 {
			return jsonArray{jsonArray{vNumArray(n)}}, jsonArray{jsonArray{vNumArray(n)}}
		}
		return jsonArray{vNumArray(n)}, jsonArray{vNumArray(n)}
	case 0:
		n := vParam("N", 2)
		return vNumArray(n), vNumArray(n)
	case 1:
		nk := vParam("KEYS", 3)
		return vC18KeyObj(nk), vC18KeyObj(nk)
	case 2:
		return jsonArray{jsonObject{"1": vNumArray(2)}}, jsonArray{jsonObject{"1": vNumArray(2)}}
	default:
		return vScalarOrVoid(), vScalarOrVoid()
	}
}

// VerifC18Patch: the v1 JSON Patch rendering evaluates to b under RFC 6902, and read back with
// the v1 reader it patches a into b.
func VerifC18Patch() {
	a, b := vC18Docs()
	if vKnown("hash.alias") {
		vAssumeNoHashAlias(a, b)
	}
	vC18PatchLegs(a, b)
	vCover("c18.patch")
}

func vC18PatchLegs(a, b JsonNode) {
	d := a.Diff(b)
	s, err := d.RenderPatch()
	vAssert(err == nil, "v1 RenderPatch failed on a list-mode diff")
	vObserve("patch", s)
	n, err := ReadJsonString(s)
	vAssert(err == nil, "v1 rendered JSON Patch is not valid JSON")
	ops, wf := refDecodeOps(n)
	vAssert(wf, "v1 rendered JSON Patch is not a well-formed RFC 6902 document")
	r, ok := ref6902(a, ops)
	vAssert(r != nil && ok, "v1 rendered JSON Patch does not apply to a under RFC 6902")
	if r != nil {
		vAssert(refEq(r, b, modeList, 0), "v1 rendered JSON Patch applied to a does not give b")
	}
	d2, err := ReadPatchString(s)
	vAssert(err == nil, "v1 ReadPatchString rejected v1 output")
	p, err := vClone(a).Patch(d2)
	vAssert(err == nil, "v1 JSON Patch output, read back, does not apply to a")
	vAssert(refEq(p, b, modeList, 0), "v1 JSON Patch output, read back and applied to a, does not give b")
}

// VerifC18Merge: the v1 JSON Merge Patch rendering evaluates to b under RFC 7386, and read back
// with the v1 reader it patches a into b.
func VerifC18Merge() {
	var a, b JsonNode
	switch vChoice(vParam("ROOTS", 3)) {
	case 0:
		a, b = vObjDoc(vParam("D", 0)), vObjDoc(vParam("D", 0))
	case 1:
		a, b = vObjDoc(0), vNum()
		if vChoice(2) == 1 {
			b = vNumArray(1)
		}
		if vChoice(2) == 1 {
			a, b = b, a
		}
	default:
		a, b = vNumArray(2), vNumArray(2)
	}
	vAssume(!refEq(a, b, modeList, 0))
	if vKnown("merge.rootempty") {
		// listed finding: the rendered document {} is read back as "no change"
		if bo, ok := b.(jsonObject); ok && len(bo) == 0 {
			_, aIsObj := a.(jsonObject)
			vAssume(aIsObj)
		}
	}
	vC18MergeLegs(a, b)
	vCover("c18.merge")
}

func vC18MergeLegs(a, b JsonNode) {
	vAssume(!refEq(a, b, modeList, 0))
	d := a.Diff(b, MERGE)
	s, err := d.RenderMerge()
	vAssert(err == nil, "v1 RenderMerge failed on a merge-mode diff")
	vObserve("merge", s)
	pn, err := ReadJsonString(s)
	vAssert(err == nil, "v1 rendered merge patch is not valid JSON")
	vAssert(refEq(ref7386(a, pn), b, modeList, 0), "MergePatch(a, v1 rendered patch) differs from b")
	d2, err := ReadMergeString(s)
	vAssert(err == nil, "v1 ReadMergeString rejected v1 output")
	p, err := vClone(a).Patch(d2)
	vAssert(err == nil, "v1 merge patch output, read back, does not apply to a")
	vAssert(refEq(p, b, modeList, 0), "v1 merge patch output, read back and applied to a, does not give b")
}

// VerifC18Canary must be violated.
func VerifC18Canary() {
	a, b := vNumArray(1), vNumArray(1)
	s, _ := a.Diff(b).RenderPatch()
	vAssert(s == "[]", "canary: v1 JSON patches are empty")
}
