//go:build verif

package jd

// v1 (package lib) generators: same families as the v2 harness.

func vNum() JsonNode { return jsonNumber(vF64()) }

// vLeafK: a scalar of solver-chosen kind (number, short string, bool, null).
func vLeafK() JsonNode {
	switch vChoice(4) {
	case 0:
		return jsonNumber(vF64())
	case 1:
		return jsonString(vStrA(vParam("STRLEN", 1)))
	case 2:
		return jsonBool(vBool())
	default:
		return jsonNull(nil)
	}
}

// vNestElem: number, small array of numbers, one-key object or empty object.
func vNestElem() JsonNode {
	switch vChoice(3 + vParam("EMPTYOBJ", 0)) {
	case 0:
		return vNum()
	case 1:
		return vNumArray(vParam("INNER", 1))
	case 2:
		return jsonObject{"k": vNum()}
	default:
		return jsonObject{}
	}
}

func vNestArray(maxLen int) jsonArray {
	n := vChoice(maxLen + 1)
	a := make(jsonArray, n)
	for i := range a {
		a[i] = vNestElem()
	}
	return a
}

func vKindArray(maxLen int) jsonArray {
	n := vChoice(maxLen + 1)
	a := make(jsonArray, n)
	for i := range a {
		a[i] = vLeafK()
	}
	return a
}

func vNumArray(maxLen int) jsonArray {
	n := vChoice(maxLen + 1)
	a := make(jsonArray, n)
	for i := range a {
		a[i] = vNum()
	}
	return a
}

const (
	mNone = iota
	mSet
	mMultiset
	mSetkeys
	mMerge
	mPrecision
	mSetSetkeys // SET + Setkeys("id"): what the v1 CLI builds for -set -setkeys id
	mMultisetMerge
	mSetMerge
	mCount
)

func vMeta(k int, eps float64) []Metadata {
	switch k {
	case mSet:
		return []Metadata{SET}
	case mMultiset:
		return []Metadata{MULTISET}
	case mSetkeys:
		return []Metadata{Setkeys("id")}
	case mMerge:
		return []Metadata{MERGE}
	case mPrecision:
		return []Metadata{SetPrecision(eps)}
	case mSetSetkeys:
		return []Metadata{SET, Setkeys("id")}
	case mMultisetMerge:
		return []Metadata{MULTISET, MERGE}
	case mSetMerge:
		return []Metadata{SET, MERGE}
	}
	return []Metadata{}
}

func metaName(k int) string {
	return [...]string{"none", "set", "multiset", "setkeys", "merge", "precision", "set+setkeys", "multiset+merge", "set+merge"}[k]
}

func metaMode(k int) int {
	switch k {
	case mSet, mSetSetkeys, mSetMerge:
		return modeSet
	case mMultiset, mMultisetMerge:
		return modeMultiset
	}
	return modeList
}

func vMetaChoice(def int) int {
	mask := vParam("METAS", def)
	var ks []int
	for k := 0; k < mCount; k++ {
		if mask&(1<<k) != 0 {
			ks = append(ks, k)
		}
	}
	return ks[vChoice(len(ks))]
}

func vClone(n JsonNode) JsonNode {
	switch t := n.(type) {
	case jsonArray:
		c := make(jsonArray, len(t))
		for i, e := range t {
			c[i] = vClone(e)
		}
		return c
	case jsonObject:
		c := make(jsonObject, len(t))
		for k, e := range t {
			c[k] = vClone(e)
		}
		return c
	}
	return n
}

func vObjDoc(depth int) jsonObject {
	o := jsonObject{}
	for _, k := range []string{"a", "b"} {
		switch vChoice(4 + vParam("EMPTYOBJ", 0)) {
		case 0:
		case 1:
			o[k] = vNum()
		case 2:
			o[k] = vNumArray(vParam("INNER", 1))
		case 4:
			o[k] = jsonObject{}
		default:
			if depth > 0 {
				o[k] = vObjDoc(depth - 1)
			} else {
				o[k] = jsonObject{"c": vNum()}
			}
		}
	}
	return o
}

func vKeyedArray(maxLen int) jsonArray {
	n := vChoice(maxLen + 1)
	a := make(jsonArray, n)
	ids := make([]float64, n)
	for i := range a {
		ids[i] = vF64()
		for j := 0; j < i; j++ {
			vAssume(ids[i] != ids[j])
		}
		o := jsonObject{"id": jsonNumber(ids[i])}
		switch vChoice(3) {
		case 0:
		case 1:
			o["v"] = vNum()
		default:
			o["v"] = vNumArray(1)
		}
		a[i] = o
	}
	return a
}

func vWrap(n JsonNode, how int) JsonNode {
	switch how {
	case 1:
		return jsonObject{"k": n}
	case 2:
		return jsonArray{n}
	case 3:
		return jsonArray{jsonObject{"k": n}}
	}
	return n
}

func vScalarOrVoid() JsonNode {
	switch vChoice(7) {
	case 0:
		return voidNode{}
	case 1:
		return vNum()
	case 2:
		return jsonString(vStrA(1))
	case 3:
		return jsonBool(vBool())
	case 4:
		return jsonNull(nil)
	case 5:
		return jsonObject{}
	default:
		return jsonArray{}
	}
}

func vHasNull(n JsonNode) bool {
	switch t := n.(type) {
	case jsonNull:
		return true
	case jsonObject:
		for _, v := range t {
			if vHasNull(v) {
				return true
			}
		}
	default:
		if xs, ok := refArr(n); ok {
			for _, v := range xs {
				if vHasNull(v) {
					return true
				}
			}
		}
	}
	return false
}

func vObsLabel(k int, l string) string {
	if k == mNone || k == mMerge || k == mPrecision || k == mSetkeys {
		return l
	}
	return "~" + l
}

func vAssumeNoHashAlias(a, b JsonNode) {}
