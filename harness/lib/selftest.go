//go:build verif

package jd

import "fmt"

func init() {
	vHarnesses["VerifSelfCorpusLib"] = VerifSelfCorpusLib
}

// the repository's fuzz corpus plus a few longer arrays (v1 list patches insert and delete in
// place, which exercises overlapping appends)
var vCorpusLib = []string{
	``, `null`, `0`, `""`, `"foo"`, `[]`, `[null]`, `[null,null,null]`, `[1]`, `[1,2,3]`, `[3,1,2]`, `[2,2,1]`, `[1,2,3,4,5]`, `[5,1,2,3]`,
	`[{},[],3]`, `[1,{},[]]`, `{}`, `{"foo":"bar"}`, `{"foo":1}`, `{"foo":[]}`, `{"foo":[1,2,3]}`, `{"foo":[3,2]}`, `{"foo":{"bar":1}}`,
	`{"foo":{"bar":[1,2,3]}}`, `{"foo":{"bar":{}}}`, `{"a/b":1,"m~n":[true,false],"0":{}}`, `[[1,2],[2,1],[1,2]]`, `[{"id":1,"v":2},{"id":2,"v":[3]}]`,
}

// VerifSelfCorpusLib: translator validation for the v1 library. No symbolic input; every
// observation must be byte-identical to the native run.
func VerifSelfCorpusLib() {
	i := vChoice(len(vCorpusLib))
	j := vChoice(len(vCorpusLib))
	k := vChoice(mPrecision) // none, set, multiset, setkeys, merge
	a, err := ReadJsonString(vCorpusLib[i])
	vAssert(err == nil, "corpus entry does not parse")
	b, err := ReadJsonString(vCorpusLib[j])
	vAssert(err == nil, "corpus entry does not parse")
	m := vMeta(k, 0)
	vObserve("eq", a.Equals(b, m...))
	d := a.Diff(b, m...)
	vObserve("n", len(d))
	vObserve("render", d.Render())
	if k == mNone {
		s, err := d.RenderPatch()
		vObserve("patch", fmt.Sprint(s, err != nil))
		if err == nil {
			d2, err := ReadPatchString(s)
			vObserve("readpatch", fmt.Sprint(len(d2), err != nil))
			if err == nil {
				p2, err := vClone(a).Patch(d2)
				vObserve("patched2err", err != nil)
				if err == nil {
					vObserve("patched2", p2.Json())
				}
			}
		}
	}
	if k == mMerge {
		s, err := d.RenderMerge()
		vObserve("merge", fmt.Sprint(s, err != nil))
	}
	d3, err := ReadDiffString(d.Render())
	vObserve("reread", fmt.Sprint(len(d3), err != nil))
	p, err := vClone(a).Patch(d)
	vObserve("patcherr", err != nil)
	if err == nil {
		vObserve("patched", p.Json(m...))
	}
	vObserve("ajson", a.Json())
}
