//go:build verif

package jd

func init() {
	vHarnesses["VerifC17Flat"] = VerifC17Flat
	vHarnesses["VerifC17Docs"] = VerifC17Docs
	vHarnesses["VerifC17Canary"] = VerifC17Canary
	vHarnesses["VerifC17Deep"] = VerifC17Deep
	vHarnesses["VerifC17KeyedSet"] = VerifC17KeyedSet
	vHarnesses["VerifC17Nest"] = VerifC17Nest
	vHarnesses["VerifC17Kinds"] = VerifC17Kinds
}

func vIsMergeMeta(k int) bool { return k == mMerge || k == mMultisetMerge || k == mSetMerge }

// vKeyedSetArray: members identified by "id" (pairwise different numbers within one array),
// with a second member "v" that is absent, a number, a one-element array or a small object;
// with MIXED=1 a member may also be a plain number.
func vKeyedSetArray(maxLen int) jsonArray {
	n := vChoice(maxLen + 1)
	a := make(jsonArray, 0, n)
	var ids []float64
	for i := 0; i < n; i++ {
		if vParam("MIXED", 0) == 1 && vChoice(2) == 1 {
			a = append(a, vNum())
			continue
		}
		id := vF64()
		for _, o := range ids {
			vAssume(id != o)
		}
		ids = append(ids, id)
		o := jsonObject{"id": jsonNumber(id)}
		switch vChoice(vParam("VK", 4)) {
		case 0:
		case 1:
			o["v"] = vNum()
		case 2:
			o["v"] = vNumArray(1)
		default:
			o["v"] = jsonObject{"c": vNum()}
		}
		a = append(a, o)
	}
	return a
}

// VerifC17KeyedSet: SET + Setkeys("id") — the metadata the v1 CLI builds for -set -setkeys id:
// objects are matched by identity and sub-diffed below a ["set","setkeys=id"] path element.
func VerifC17KeyedSet() {
	a, b := vKeyedSetArray(vParam("KN", 2)), vKeyedSetArray(vParam("KM", 1))
	how := [...]int{0, 1}[vChoice(vParam("WRAPS", 2))]
	vC17Check(vWrap(a, how), vWrap(b, how), mSetSetkeys, "c17.keyedset")
}

// VerifC17Nest: arrays whose members are numbers, arrays, one-key objects or {} — every array
// reading, nested members hashed with the metadata in force.
func VerifC17Nest() {
	k := vMetaChoice(0x197) // not SET+Setkeys: members without the key all share one identity (outside the property)
	n := vParam("N", 2)
	how := [...]int{0, 1, 2}[vChoice(vParam("WRAPS", 2))]
	vC17Check(vWrap(vNestArray(n), how), vWrap(vNestArray(n), how), k, "c17.nest")
}

// VerifC17Kinds: arrays mixing numbers, strings, booleans and nulls.
func VerifC17Kinds() {
	k := vMetaChoice(0x07)
	n := vParam("N", 2)
	vC17Check(vKindArray(n), vKindArray(n), k, "c17.kinds")
}

// VerifC17Deep: arrays and small objects below a chain of keys / array positions of every
// length up to DEPTH (path slices of every length and spare capacity).
func VerifC17Deep() {
	k := vMetaChoice(0x11)
	depth := vChoice(vParam("DEPTH", 7) + 1)
	var a, b JsonNode
	if vChoice(2) == 0 {
		n := vParam("N", 3)
		a, b = vNumArray(n), vNumArray(n)
	} else {
		oa, ob := jsonObject{}, jsonObject{}
		for _, key := range []string{"a", "b", "c"} {
			if vChoice(2) == 1 {
				oa[key] = vNum()
			}
			if vChoice(2) == 1 {
				ob[key] = vNum()
			}
		}
		a, b = oa, ob
	}
	for i := 0; i < depth; i++ {
		if vParam("CHAINKINDS", 1) > 1 && vChoice(2) == 1 {
			a, b = jsonArray{a}, jsonArray{b}
		} else {
			a, b = jsonObject{"p": a}, jsonObject{"p": b}
		}
	}
	vC17Check(a, b, k, "c17.deep")
}

// vC17Check: v1 diff-then-patch (directly and through Render/ReadDiffString) and diff-empty <=> Equals.
func vC17Check(a, b JsonNode, k int, label string) {
	eps := 0.0
	if k == mPrecision {
		eps = vF64()
		vAssume(eps >= 0)
	}
	if vIsMergeMeta(k) {
		vAssume(!vHasNull(a) && !vHasNull(b))
	}
	if vKnown("hash.alias") {
		vAssumeNoHashAlias(a, b)
	}
	md := vMeta(k, eps)
	d := a.Diff(b, md...)
	eq := a.Equals(b, md...)
	if !(k == mPrecision && vKnown("precision.diff")) {
		vAssert((len(d) == 0) == eq, "v1: diff emptiness disagrees with Equals")
	}
	text := d.Render()
	vObserve(vObsLabel(k, "diff"), text)
	p, err := vClone(a).Patch(d)
	vAssert(err == nil, "v1: patch of own diff failed")
	if k != mPrecision {
		vAssert(p.Equals(b, md...), "v1: patched document differs from target")
	} else {
		vAssert(p.Equals(b, md...), "v1: patched document differs from target (precision)")
	}
	d2, err := ReadDiffString(text)
	vAssert(err == nil, "v1: ReadDiffString rejected a rendered diff")
	p2, err := vClone(a).Patch(d2)
	vAssert(err == nil, "v1: the re-read diff does not apply to a")
	vAssert(p2.Equals(b, md...), "v1: the re-read diff does not turn a into b")
	vCover(label + "." + metaName(k))
}

// VerifC17Flat: arrays of numbers growing, shrinking and changing in place.
func VerifC17Flat() {
	k := vMetaChoice(0x37)
	n := vParam("N", 2)
	m := vParam("M", n)
	how := [...]int{0, 1}[vChoice(vParam("WRAPS", 2))]
	vC17Check(vWrap(vNumArray(n), how), vWrap(vNumArray(m), how), k, "c17.flat")
}

// VerifC17Docs: objects, keyed arrays, void and scalars.
func VerifC17Docs() {
	fam := vChoice(3)
	switch fam {
	case 0:
		k := vMetaChoice(0x17)
		vC17Check(vObjDoc(0), vObjDoc(0), k, "c17.obj")
	case 1:
		vC17Check(vKeyedArray(vParam("KN", 1)), vKeyedArray(vParam("KN", 1)), mSetkeys, "c17.keyed")
	default:
		k := vMetaChoice(0x17)
		vC17Check(vScalarOrVoid(), vScalarOrVoid(), k, "c17.void")
	}
}

// VerifC17Canary must be violated.
func VerifC17Canary() {
	a, b := vNumArray(2), vNumArray(2)
	vAssert(len(a.Diff(b)) == 0, "canary: v1 diffs are empty")
}
