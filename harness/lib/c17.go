//go:build verif

package jd

func init() {
	vHarnesses["VerifC17Flat"] = VerifC17Flat
	vHarnesses["VerifC17Docs"] = VerifC17Docs
	vHarnesses["VerifC17Canary"] = VerifC17Canary
	vHarnesses["VerifC17Deep"] = VerifC17Deep
}

// VerifC17Deep: arrays and small objects below a chain of keys / array positions of every
// length up to DEPTH (path slices of every length and spare capacity).
func VerifC17Deep() {
	k := vMetaChoice(0x11)
	depth := vChoice(vParam("DEPTH", 7) + 1)
	var a, b JsonNode
	if vChoice(2) == 0 {
		n := vParam("N", 3)
		a, b = vNumArray(n), vNumArray(n)
	} else {
		oa, ob := jsonObject{}, jsonObject{}
		for _, key := range []string{"a", "b", "c"} {
			if vChoice(2) == 1 {
				oa[key] = vNum()
			}
			if vChoice(2) == 1 {
				ob[key] = vNum()
			}
		}
		a, b = oa, ob
	}
	for i := 0; i < depth; i++ {
		if vParam("CHAINKINDS", 1) > 1 && vChoice(2) == 1 {
			a, b = jsonArray{a}, jsonArray{b}
		} else {
			a, b = jsonObject{"p": a}, jsonObject{"p": b}
		}
	}
	vC17Check(a, b, k, "c17.deep")
}

// vC17Check: v1 diff-then-patch (directly and through Render/ReadDiffString) and diff-empty <=> Equals.
func vC17Check(a, b JsonNode, k int, label string) {
	eps := 0.0
	if k == mPrecision {
		eps = vF64()
		vAssume(eps >= 0)
	}
	if k == mMerge {
		vAssume(!vHasNull(a) && !vHasNull(b))
	}
	if vKnown("hash.alias") {
		vAssumeNoHashAlias(a, b)
	}
	md := vMeta(k, eps)
	d := a.Diff(b, md...)
	eq := a.Equals(b, md...)
	if !(k == mPrecision && vKnown("precision.diff")) {
		vAssert((len(d) == 0) == eq, "v1: diff emptiness disagrees with Equals")
	}
	text := d.Render()
	vObserve(vObsLabel(k, "diff"), text)
	p, err := vClone(a).Patch(d)
	vAssert(err == nil, "v1: patch of own diff failed")
	if k != mPrecision {
		vAssert(p.Equals(b, md...), "v1: patched document differs from target")
	} else {
		vAssert(p.Equals(b, md...), "v1: patched document differs from target (precision)")
	}
	d2, err := ReadDiffString(text)
	vAssert(err == nil, "v1: ReadDiffString rejected a rendered diff")
	p2, err := vClone(a).Patch(d2)
	vAssert(err == nil, "v1: the re-read diff does not apply to a")
	vAssert(p2.Equals(b, md...), "v1: the re-read diff does not turn a into b")
	vCover(label + "." + metaName(k))
}

// VerifC17Flat: arrays of numbers growing, shrinking and changing in place.
func VerifC17Flat() {
	k := vMetaChoice(0x37)
	n := vParam("N", 2)
	m := vParam("M", n)
	how := [...]int{0, 1}[vChoice(vParam("WRAPS", 2))]
	vC17Check(vWrap(vNumArray(n), how), vWrap(vNumArray(m), how), k, "c17.flat")
}

// VerifC17Docs: objects, keyed arrays, void and scalars.
func VerifC17Docs() {
	fam := vChoice(3)
	switch fam {
	case 0:
		k := vMetaChoice(0x17)
		vC17Check(vObjDoc(0), vObjDoc(0), k, "c17.obj")
	case 1:
		vC17Check(vKeyedArray(vParam("KN", 1)), vKeyedArray(vParam("KN", 1)), mSetkeys, "c17.keyed")
	default:
		k := vMetaChoice(0x17)
		vC17Check(vScalarOrVoid(), vScalarOrVoid(), k, "c17.void")
	}
}

// VerifC17Canary must be violated.
func VerifC17Canary() {
	a, b := vNumArray(2), vNumArray(2)
	vAssert(len(a.Diff(b)) == 0, "canary: v1 diffs are empty")
}
