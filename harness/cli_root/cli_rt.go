//go:build verif

package main

// Native side of the CLI intrinsics: the real binary (built from /repo, no tags) is run as a
// process in a scratch directory. The symbolic engine intercepts these functions and runs
// main() in-process over models of flag / os / fmt (DESIGN.md section 3.1).

import (
	"bytes"
	"os"
	"os/exec"
	"path/filepath"
	"strings"
)

type vCLIState struct {
	dir    string
	stdin  string
	stdout string
	stderr string
}

var vCLI *vCLIState

func vCLIInit() *vCLIState {
	if vCLI == nil {
		d, err := os.MkdirTemp("", "verifcli")
		if err != nil {
			panic(vDesync{"mkdtemp: " + err.Error()})
		}
		vCLI = &vCLIState{dir: d}
	}
	return vCLI
}

func vCLIReset() {
	if vCLI != nil {
		os.RemoveAll(vCLI.dir)
		vCLI = nil
	}
}

func vCLISetFile(name, content string) {
	c := vCLIInit()
	if err := os.WriteFile(filepath.Join(c.dir, name), []byte(content), 0644); err != nil {
		panic(vDesync{"write: " + err.Error()})
	}
}

func vCLISetStdin(content string) { vCLIInit().stdin = content }

func vCLIRun(argv []string) int {
	c := vCLIInit()
	bin := os.Getenv("VERIF_JD_BIN")
	if bin == "" {
		panic(vDesync{"VERIF_JD_BIN not set"})
	}
	cmd := exec.Command(bin, argv...)
	cmd.Dir = c.dir
	cmd.Stdin = strings.NewReader(c.stdin)
	var so, se bytes.Buffer
	cmd.Stdout, cmd.Stderr = &so, &se
	err := cmd.Run()
	c.stdout, c.stderr = so.String(), se.String()
	if err == nil {
		return 0
	}
	if ee, ok := err.(*exec.ExitError); ok {
		return ee.ExitCode()
	}
	panic(vDesync{"exec: " + err.Error()})
}

func vCLIStdout() string { return vCLIInit().stdout }

func vCLIStderrLines() int {
	s := strings.TrimRight(vCLIInit().stderr, "\n")
	if s == "" {
		return 0
	}
	return len(strings.Split(s, "\n"))
}

func vCLIFile(name string) (string, bool) {
	b, err := os.ReadFile(filepath.Join(vCLIInit().dir, name))
	if err != nil {
		return "", false
	}
	return string(b), true
}
