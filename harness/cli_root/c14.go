//go:build verif

package main

import (
	"strconv"

	v1 "github.com/josephburnett/jd/lib"
	jd "github.com/josephburnett/jd/v2"
)

func init() {
	vHarnesses["VerifC14Diff"] = VerifC14Diff
	vHarnesses["VerifC14Patch"] = VerifC14Patch
	vHarnesses["VerifC14Errors"] = VerifC14Errors
	vHarnesses["VerifC14ErrMatrix"] = VerifC14ErrMatrix
	vHarnesses["VerifC14Canary"] = VerifC14Canary
	vHarnesses["VerifC14Translate"] = VerifC14Translate
	vHarnesses["VerifC14SetKeys"] = VerifC14SetKeys
	vHarnesses["VerifC14Yaml"] = VerifC14Yaml
	vHarnesses["VerifC14GitDriver"] = VerifC14GitDriver
	vHarnesses["VerifC14DiffV1"] = VerifC14DiffV1
	vHarnesses["VerifC14PatchV1"] = VerifC14PatchV1
}

func vNode1(x interface{}) v1.JsonNode {
	n, err := v1.NewJsonNode(x)
	if err != nil {
		panic(err)
	}
	return n
}

func vDoc1() v1.JsonNode {
	switch vChoice(vParam("DOCS", 3)) {
	case 0:
		return vNode1(vNums(vParam("N", 2)))
	case 1:
		m := map[string]interface{}{}
		if vChoice(2) == 1 {
			m["a"] = vF64()
		}
		if vChoice(2) == 1 {
			m["b"] = vNums(1)
		}
		return vNode1(m)
	default:
		return vNode1(vF64())
	}
}

func (f vFlags) metadata() []v1.Metadata {
	var o []v1.Metadata
	if f.set {
		o = append(o, v1.SET)
	}
	if f.mset {
		o = append(o, v1.MULTISET)
	}
	if f.format == "merge" {
		o = append(o, v1.MERGE)
	}
	return o
}

func (f vFlags) expected1(a, b v1.JsonNode) (string, error) {
	d := a.Diff(b, f.metadata()...)
	switch f.format {
	case "patch":
		return d.RenderPatch()
	case "merge":
		return d.RenderMerge()
	}
	if f.color {
		return d.Render(v1.COLOR), nil
	}
	return d.Render(), nil
}

// VerifC14DiffV1: the top-level binary with -v2=false prints the v1 library rendering and
// exits 0 iff the inputs are equal under the v1 metadata, 1 if they differ.
func VerifC14DiffV1() {
	a, b := vDoc1(), vDoc1()
	f := vPickFlags()
	f.precision = false
	want, werr := f.expected1(a, b)
	eq := a.Equals(b, f.metadata()...)
	vCLISetFile("a.json", a.Json())
	vCLISetFile("b.json", b.Json())
	argv := append([]string{"-v2=false"}, f.argv()...)
	how := vChoice(3)
	switch how {
	case 0:
		argv = append(argv, "a.json", "b.json")
	case 1:
		vCLISetStdin(b.Json())
		argv = append(argv, "a.json")
	default:
		argv = append(append([]string{}, argv...), "-o", "out.txt", "a.json", "b.json")
	}
	code := vCLIRun(argv)
	out := vCLIStdout()
	vObserve("code", code)
	if werr != nil {
		vAssert(code == 2, "v1 library rendering fails but the CLI does not exit 2")
		vCover("c14.v1diff.error")
		vCLIReset()
		return
	}
	if eq {
		vAssert(code == 0, "-v2=false: inputs are equal under the flags but the exit status is not 0")
	} else {
		vAssert(code == 1, "-v2=false: inputs differ under the flags but the exit status is not 1")
	}
	if how == 2 {
		got, ok := vCLIFile("out.txt")
		vAssert(ok, "-o did not create the output file")
		vAssert(got == want, "-v2=false: -o file content differs from the v1 library rendering")
		vAssert(out == "", "-o given but something was printed on stdout")
	} else {
		vAssert(out == want, "-v2=false: stdout differs from the v1 library rendering")
	}
	vCover("c14.v1diff." + [...]string{"files", "stdin", "outfile"}[how])
	vCLIReset()
}

// VerifC14PatchV1: -v2=false: the printed diff fed to -p reproduces b.
func VerifC14PatchV1() {
	a, b := vDoc1(), vDoc1()
	f := vPickFlags()
	f.color, f.precision = false, false
	vCLISetFile("a.json", a.Json())
	vCLISetFile("b.json", b.Json())
	base := append([]string{"-v2=false"}, f.argv()...)
	code := vCLIRun(append(append([]string{}, base...), "-o", "d.txt", "a.json", "b.json"))
	vAssume(code == 0 || code == 1)
	if f.format == "merge" {
		vAssume(!a.Equals(b, f.metadata()...))
		if vKnown("merge.rootempty") {
			d, _ := vCLIFile("d.txt")
			vAssume(d != "{}")
		}
	}
	code2 := vCLIRun(append(append([]string{}, base...), "-p", "d.txt", "a.json"))
	vAssert(code2 == 0, "-v2=false: jd -p rejected the diff printed by jd")
	out := vCLIStdout()
	p, err := v1.ReadJsonString(out)
	vAssert(err == nil, "-v2=false: jd -p printed something that is not JSON")
	vAssert(p.Equals(b, f.metadata()...), "-v2=false: jd -p applied to a does not reproduce b")
	vCover("c14.v1patch")
	vCLIReset()
}

// VerifC14Translate: -t X2Y prints exactly the library translation and exits 0.
func VerifC14Translate() {
	a, b := vDoc(), vDoc()
	which := vChoice(4)
	var in, want string
	var werr error
	switch which {
	case 0: // jd2patch
		d := a.Diff(b)
		in = d.Render()
		want, werr = d.RenderPatch()
	case 1: // patch2jd
		in, werr = a.Diff(b).RenderPatch()
		if werr == nil {
			d2, e := jd.ReadPatchString(in)
			werr = e
			if e == nil {
				want = d2.Render()
			}
		}
	case 2: // jd2merge
		d := a.Diff(b, jd.MERGE)
		in = d.Render()
		want, werr = d.RenderMerge()
	default: // merge2jd
		in, werr = a.Diff(b, jd.MERGE).RenderMerge()
		if werr == nil {
			d2, e := jd.ReadMergeString(in)
			werr = e
			if e == nil {
				want = d2.Render()
			}
		}
	}
	vAssume(werr == nil)
	name := [...]string{"jd2patch", "patch2jd", "jd2merge", "merge2jd"}[which]
	vCLISetFile("in.txt", in)
	var code int
	if vChoice(2) == 0 {
		code = vCLIRun([]string{"-t", name, "in.txt"})
	} else {
		vCLISetStdin(in)
		code = vCLIRun([]string{"-t", name})
	}
	vAssert(code == 0, "translation of a valid input does not exit 0")
	vAssert(vCLIStdout() == want, "translation output differs from the library translation")
	vCover("c14.translate." + name)
	vCLIReset()
}

func vNode(x interface{}) jd.JsonNode {
	n, err := jd.NewJsonNode(x)
	if err != nil {
		panic(err)
	}
	return n
}

func vNums(max int) []interface{} {
	n := vChoice(max + 1)
	out := make([]interface{}, n)
	for i := range out {
		out[i] = vF64()
	}
	return out
}

// vDoc: a small document: array of numbers, object with array / number members, scalar.
func vDoc() jd.JsonNode {
	if vParam("STRS", 0) == 1 {
		// one document in two holds a string
		if vChoice(2) == 1 {
			return vDocKind(3)
		}
	}
	return vDocKind(vChoice(vParam("DOCS", 3)))
}

func vDocKind(k int) jd.JsonNode {
	if k > 3 {
		k = 99
	}
	switch k {
	case 0:
		return vNode(vNums(vParam("N", 2)))
	case 1:
		m := map[string]interface{}{}
		if vChoice(2) == 1 {
			m["a"] = vF64()
		}
		if vChoice(2) == 1 {
			m["b"] = vNums(1)
		}
		return vNode(m)
	case 3:
		// strings that are awkward for a printer: a format verb, a newline, quotes, HTML and
		// non-ASCII characters — next to a symbolic number
		str := [...]string{"50%", "%s%d", "a\nb", "é", "<x>&", "\"q\"", "%!(EXTRA)"}[vChoice(7)]
		if vChoice(2) == 1 {
			return vNode(map[string]interface{}{"a": str, "b": vF64()})
		}
		return vNode([]interface{}{str, vF64()})
	default:
		return vNode(vF64())
	}
}

type vFlags struct {
	set, mset, color bool
	format          string
	precision       bool
	eps             float64
}

func vPickFlags() vFlags {
	var f vFlags
	switch vChoice(vParam("MODES", 3)) {
	case 1:
		f.set = true
	case 2:
		f.mset = true
	}
	f.format = [...]string{"", "jd", "patch", "merge"}[vChoice(vParam("FORMATS", 4))]
	if vParam("COLOR", 0) == 1 && vChoice(2) == 1 {
		f.color = true
	}
	if vParam("PRECISION", 0) == 1 && !f.set && !f.mset && vChoice(2) == 1 {
		f.precision = true
		f.eps = vF64()
		vAssume(f.eps >= 0)
	}
	return f
}

func (f vFlags) argv() []string {
	var a []string
	if f.set {
		a = append(a, "-set")
	}
	if f.mset {
		a = append(a, "-mset")
	}
	if f.color {
		a = append(a, "-color")
	}
	if f.format != "" {
		a = append(a, "-f", f.format)
	}
	if f.precision {
		a = append(a, "-precision="+strconv.FormatFloat(f.eps, 'g', -1, 64))
	}
	return a
}

// options: the flag -> option mapping as documented in README.md.
func (f vFlags) options() []jd.Option {
	var o []jd.Option
	if f.set {
		o = append(o, jd.SET)
	}
	if f.mset {
		o = append(o, jd.MULTISET)
	}
	if f.format == "merge" {
		o = append(o, jd.MERGE)
	}
	if f.precision {
		o = append(o, jd.Precision(f.eps))
	}
	return o
}

// expected: what the library renders for these flags.
func (f vFlags) expected(a, b jd.JsonNode) (string, error) {
	d := a.Diff(b, f.options()...)
	switch f.format {
	case "patch":
		return d.RenderPatch()
	case "merge":
		return d.RenderMerge()
	}
	if f.color {
		return d.Render(jd.COLOR), nil
	}
	return d.Render(), nil
}

// VerifC14Diff: diff mode prints exactly the library rendering, exits 0 iff the inputs are
// equal under the flags, 1 if they differ; -o writes the same bytes to the file and nothing to
// stdout; reading the second input from stdin is the same as naming a file.
func VerifC14Diff() {
	a, b := vDoc(), vDoc()
	f := vPickFlags()
	if vKnown("hash.alias") {
		// nothing to do: documents hold numbers only
	}
	want, werr := f.expected(a, b)
	eq := a.Equals(b, f.options()...)
	vCLISetFile("a.json", a.Json())
	vCLISetFile("b.json", b.Json())
	argv := f.argv()
	how := vChoice(3)
	switch how {
	case 0:
		argv = append(argv, "a.json", "b.json")
	case 1:
		vCLISetStdin(b.Json())
		argv = append(argv, "a.json")
	default:
		argv = append(append([]string{}, argv...), "-o", "out.txt", "a.json", "b.json")
	}
	code := vCLIRun(argv)
	out := vCLIStdout()
	vObserve("code", code)
	if werr != nil {
		vAssert(code == 2, "library rendering fails but the CLI does not exit 2")
		vCover("c14.diff.error")
		vCLIReset()
		return
	}
	if f.precision && vKnown("precision.diff") {
		// listed finding: Diff does not honour Precision (Equals does)
		vAssume(eq == a.Equals(b))
	}
	if eq {
		vAssert(code == 0, "inputs are equal under the flags but the exit status is not 0")
	} else {
		vAssert(code == 1, "inputs differ under the flags but the exit status is not 1")
	}
	if how == 2 {
		got, ok := vCLIFile("out.txt")
		vAssert(ok, "-o did not create the output file")
		vAssert(got == want, "-o file content differs from the library rendering")
		vAssert(out == "", "-o given but something was printed on stdout")
	} else {
		vAssert(out == want, "stdout differs from the library rendering")
	}
	vCover("c14.diff." + [...]string{"files", "stdin", "outfile"}[how])
	vCLIReset()
}

// VerifC14Patch: the output of `jd [flags] a b`, fed to `jd -p [flags]` on a, reproduces b.
func VerifC14Patch() {
	a, b := vDoc(), vDoc()
	f := vPickFlags()
	f.color = false
	vCLISetFile("a.json", a.Json())
	vCLISetFile("b.json", b.Json())
	code := vCLIRun(append(append([]string{}, f.argv()...), "-o", "d.txt", "a.json", "b.json"))
	vAssume(code == 0 || code == 1)
	if f.format == "merge" {
		vAssume(!a.Equals(b, f.options()...)) // RFC 7386 leg: a != b
		if vKnown("merge.rootempty") {
			d, _ := vCLIFile("d.txt")
			vAssume(d != "{}")
		}
	}
	code2 := vCLIRun(append(append([]string{}, f.argv()...), "-p", "d.txt", "a.json"))
	vAssert(code2 == 0, "jd -p rejected the diff printed by jd")
	out := vCLIStdout()
	if f.set || f.mset {
		vObserve("~patched", out) // member order follows the hash codes: not compared with the native run
	} else {
		vObserve("patched", out)
	}
	p, err := jd.ReadJsonString(out)
	vAssert(err == nil, "jd -p printed something that is not JSON")
	vAssert(p.Equals(b, f.options()...), "jd -p applied to a does not reproduce b")
	// ... and prints exactly what the library renders for the patched document
	if dtext, ok := vCLIFile("d.txt"); ok {
		var d jd.Diff
		var derr error
		switch f.format {
		case "patch":
			d, derr = jd.ReadPatchString(dtext)
		case "merge":
			d, derr = jd.ReadMergeString(dtext)
		default:
			d, derr = jd.ReadDiffString(dtext)
		}
		if derr == nil {
			if pn, perr := a.Patch(d); perr == nil {
				vAssert(out == pn.Json(f.options()...), "jd -p stdout differs from the library rendering of the patched document")
			}
		}
	}
	vCover("c14.patch")
	vCLIReset()
}

// VerifC14Errors: bad invocations exit 2 with a one-line message and print nothing on stdout.
func VerifC14Errors() {
	a := vDoc()
	vCLISetFile("a.json", a.Json())
	vCLISetFile("bad.json", "{")
	var argv []string
	switch vChoice(6) {
	case 0:
		argv = []string{"-f", "bogus", "a.json", "a.json"}
	case 1:
		argv = []string{"a.json", "missing.json"}
	case 2:
		argv = []string{"a.json", "bad.json"}
	case 3:
		argv = []string{"-set", "-precision=0.5", "a.json", "a.json"}
	case 4:
		argv = []string{"-p", "bad.json", "a.json"}
	default:
		argv = []string{"-t", "bogus", "a.json"}
	}
	code := vCLIRun(argv)
	vAssert(code == 2, "erroneous invocation does not exit with status 2")
	vAssert(vCLIStdout() == "", "erroneous invocation printed on stdout")
	vAssert(vCLIStderrLines() == 1, "error message is not exactly one line")
	vCover("c14.errors")
	vCLIReset()
}

// VerifC14ErrMatrix: every way an input can be unusable (undecodable, missing, undecodable on
// stdin, the same undecodable file named twice, two byte-identical undecodable files) x diff
// and patch mode x output format x JSON / YAML (x -v2=false with V1=1): exit status 2, nothing on
// stdout, exactly one line on stderr.
func VerifC14ErrMatrix() {
	a := vDoc()
	yaml := vChoice(2) == 1
	good, bad := a.Json(), "{"
	if yaml {
		good, bad = a.Yaml(), "a: ["
	}
	vCLISetFile("good", good)
	vCLISetFile("bad", bad)
	vCLISetFile("bad2", bad)
	vCLISetFile("empty", "")
	vCLISetFile("baddiff", "@ [")
	var argv []string
	if vParam("V1", 0) == 1 && vChoice(2) == 1 {
		argv = append(argv, "-v2=false")
	}
	if yaml {
		argv = append(argv, "-yaml")
	}
	format := [...]string{"", "patch", "merge"}[vChoice(3)]
	if format != "" {
		argv = append(argv, "-f", format)
	}
	switch vChoice(10) {
	case 0:
		argv = append(argv, "bad", "good")
	case 1:
		argv = append(argv, "good", "bad")
	case 2:
		argv = append(argv, "bad", "bad")
	case 3:
		argv = append(argv, "bad", "bad2")
	case 4:
		vCLISetStdin(bad)
		argv = append(argv, "bad")
	case 5:
		vCLISetStdin(bad)
		argv = append(argv, "good")
	case 6:
		argv = append(argv, "missing", "good")
	case 7:
		argv = append(argv, "missing", "missing")
	case 8:
		// patch mode: a valid (empty) diff against an undecodable document
		if format != "" {
			vAssume(false)
		}
		argv = append(argv, "-p", "empty", "bad")
	default:
		// patch mode: an undecodable diff against a good document
		argv = append(argv, "-p", "baddiff", "good")
	}
	code := vCLIRun(argv)
	vAssert(code == 2, "unusable input does not end in exit status 2")
	vAssert(vCLIStdout() == "", "unusable input: something was printed on stdout")
	vAssert(vCLIStderrLines() == 1, "unusable input: the error message is not exactly one line")
	vCover("c14.errmatrix")
	vCLIReset()
}

// VerifC14Canary must be violated.
func VerifC14Canary() {
	a, b := vDoc(), vDoc()
	vCLISetFile("a.json", a.Json())
	vCLISetFile("b.json", b.Json())
	code := vCLIRun([]string{"a.json", "b.json"})
	vCLIReset()
	vAssert(code == 0, "canary: jd always exits 0")
}

func vKeyedDoc(max int) jd.JsonNode {
	n := vChoice(max + 1)
	arr := make([]interface{}, n)
	ids := make([]float64, n)
	for i := range arr {
		ids[i] = vF64()
		for j := 0; j < i; j++ {
			vAssume(ids[i] != ids[j])
		}
		m := map[string]interface{}{"id": ids[i]}
		if vChoice(2) == 1 {
			m["v"] = vF64()
		}
		arr[i] = m
	}
	return vNode(arr)
}

// VerifC14SetKeys: -setkeys id (also with blanks around the key) maps to SetKeys("id").
func VerifC14SetKeys() {
	a, b := vKeyedDoc(vParam("KN", 2)), vKeyedDoc(vParam("KM", 1))
	opts := []jd.Option{jd.SetKeys("id")}
	d := a.Diff(b, opts...)
	want := d.Render()
	vCLISetFile("a.json", a.Json())
	vCLISetFile("b.json", b.Json())
	key := [...]string{"id", " id ", "id,"}[vChoice(3)]
	code := vCLIRun([]string{"-setkeys", key, "a.json", "b.json"})
	if key == "id," {
		vAssert(code == 2, "an empty set key is not rejected with status 2")
		vCover("c14.setkeys.bad")
		vCLIReset()
		return
	}
	if a.Equals(b, opts...) {
		vAssert(code == 0, "-setkeys: inputs are equal but the exit status is not 0")
	} else {
		vAssert(code == 1, "-setkeys: inputs differ but the exit status is not 1")
	}
	vAssert(vCLIStdout() == want, "-setkeys: stdout differs from the library rendering")
	vCover("c14.setkeys")
	vCLIReset()
}

// VerifC14GitDriver: -git-diff-driver takes git's seven arguments, prints the diff of the
// old and new file and exits 0 whether or not they differ.
func VerifC14GitDriver() {
	a, b := vDoc(), vDoc()
	vCLISetFile("old.json", a.Json())
	vCLISetFile("new.json", b.Json())
	n := [...]int{7, 6}[vChoice(2)]
	argv := []string{"-git-diff-driver", "path", "old.json", "oldhex", "100644", "new.json", "newhex", "100644"}[:n+1]
	code := vCLIRun(argv)
	if n != 7 {
		vAssert(code == 2, "git diff driver with the wrong number of arguments does not exit 2")
		vCover("c14.gitdriver.bad")
		vCLIReset()
		return
	}
	vAssert(code == 0, "git diff driver does not exit 0")
	vAssert(vCLIStdout() == a.Diff(b).Render(), "git diff driver output differs from the library rendering")
	vCover("c14.gitdriver")
	vCLIReset()
}

// VerifC14Yaml: -yaml reads YAML inputs (diff output is the same native text), -yaml -p prints
// the patched document as YAML, and the json2yaml / yaml2json translations print the library's
// renderings.
func VerifC14Yaml() {
	a0, b0 := vDoc(), vDoc()
	aText, bText := a0.Yaml(), b0.Yaml()
	// the documents as the library reads them from the YAML texts (what the YAML codec does to
	// individual scalars, e.g. -0, is C16's subject, not the CLI's)
	a, err := jd.ReadYamlString(aText)
	vAssume(err == nil)
	b, err := jd.ReadYamlString(bText)
	vAssume(err == nil)
	switch vChoice(4) {
	case 0: // diff of two YAML files
		vCLISetFile("a.yaml", aText)
		vCLISetFile("b.yaml", bText)
		code := vCLIRun([]string{"-yaml", "a.yaml", "b.yaml"})
		if a.Equals(b) {
			vAssert(code == 0, "-yaml: inputs are equal but the exit status is not 0")
		} else {
			vAssert(code == 1, "-yaml: inputs differ but the exit status is not 1")
		}
		vAssert(vCLIStdout() == a.Diff(b).Render(), "-yaml: stdout differs from the library rendering")
		vCover("c14.yaml.diff")
	case 1: // patch round trip with YAML documents
		vCLISetFile("a.yaml", aText)
		vCLISetFile("b.yaml", bText)
		mode := vChoice(3)
		fl := [...][]string{{"-yaml"}, {"-yaml", "-set"}, {"-yaml", "-mset"}}[mode]
		opts := [...][]jd.Option{{}, {jd.SET}, {jd.MULTISET}}[mode]
		code := vCLIRun(append(append([]string{}, fl...), "-o", "d.txt", "a.yaml", "b.yaml"))
		vAssume(code == 0 || code == 1)
		code2 := vCLIRun(append(append([]string{}, fl...), "-p", "d.txt", "a.yaml"))
		vAssert(code2 == 0, "-yaml -p rejected the diff printed by jd -yaml")
		p, err := jd.ReadYamlString(vCLIStdout())
		vAssert(err == nil, "-yaml -p printed something that is not YAML")
		vAssert(p.Equals(b, opts...), "-yaml -p applied to a does not reproduce b")
		if dtext, ok := vCLIFile("d.txt"); ok {
			if d, derr := jd.ReadDiffString(dtext); derr == nil {
				if pn, perr := a.Patch(d); perr == nil {
					vAssert(vCLIStdout() == pn.Yaml(opts...), "-yaml -p stdout differs from the library rendering of the patched document")
				}
			}
		}
		vCover("c14.yaml.patch")
	case 2:
		jText := a0.Json()
		ja, err := jd.ReadJsonString(jText)
		vAssume(err == nil)
		vCLISetFile("a.json", jText)
		code := vCLIRun([]string{"-t", "json2yaml", "a.json"})
		vAssert(code == 0, "json2yaml does not exit 0")
		vAssert(vCLIStdout() == ja.Yaml(), "json2yaml output differs from the library rendering")
		vCover("c14.yaml.json2yaml")
	default:
		vCLISetFile("a.yaml", aText)
		code := vCLIRun([]string{"-t", "yaml2json", "a.yaml"})
		vAssert(code == 0, "yaml2json does not exit 0")
		vAssert(vCLIStdout() == a.Json(), "yaml2json output differs from the library rendering")
		vCover("c14.yaml.yaml2json")
	}
	vCLIReset()
}
