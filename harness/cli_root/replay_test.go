//go:build verif

package main

import (
	"encoding/json"
	"fmt"
	"os"
	"runtime/debug"
	"strings"
	"testing"
)

type vCase struct {
	Entry  string   `json:"entry"`
	Inputs []uint64 `json:"inputs"`
	Kinds  []string `json:"kinds"`
}

type vOutcome struct {
	Status  string      `json:"status"` // ok, assert, panic, assume, desync
	Msg     string      `json:"msg"`
	Observe [][2]string `json:"observe"`
	Covers  []string    `json:"covers"`
	Used    int         `json:"used"`
}

func vRunCase(c vCase) (out vOutcome) {
	fn, ok := vHarnesses[c.Entry]
	if !ok {
		return vOutcome{Status: "desync", Msg: "no harness " + c.Entry}
	}
	vR = &vReplayState{vals: c.Inputs, kinds: c.Kinds}
	defer func() {
		r := recover()
		out.Observe = vR.obs
		out.Covers = vR.covers
		out.Used = vR.pos
		vR = nil
		switch r := r.(type) {
		case nil:
		case vAssumeFail:
			out.Status = "assume"
		case vAssertFail:
			out.Status = "assert"
			out.Msg = r.msg
		case vDesync:
			out.Status = "desync"
			out.Msg = r.msg
		default:
			out.Status = "panic"
			st := strings.Split(string(debug.Stack()), "\n")
			if len(st) > 24 {
				st = st[:24]
			}
			out.Msg = fmt.Sprintf("%v\n%s", r, strings.Join(st, "\n"))
		}
	}()
	fn()
	out.Status = "ok"
	return
}

// TestVerifReplay replays concrete cases produced by the symbolic engine against the real build.
func TestVerifReplay(t *testing.T) {
	path := os.Getenv("VERIF_REPLAY")
	if path == "" {
		t.Skip("no VERIF_REPLAY")
	}
	b, err := os.ReadFile(path)
	if err != nil {
		t.Fatal(err)
	}
	var cases []vCase
	if err := json.Unmarshal(b, &cases); err != nil {
		t.Fatal(err)
	}
	outs := make([]vOutcome, len(cases))
	for i, c := range cases {
		outs[i] = vRunCase(c)
	}
	ob, _ := json.Marshal(outs)
	if p := os.Getenv("VERIF_REPLAY_OUT"); p != "" {
		if err := os.WriteFile(p, ob, 0644); err != nil {
			t.Fatal(err)
		}
	} else {
		fmt.Println(string(ob))
	}
}
