#!/bin/bash
# development helper (no registered command uses it): run every check of a tier on /repo and
# print one line per property: exit status, wall time, verdict line
cd /verif
TIER=${1:-quick}; shift
for id in ${@:-C01 C02 C03 C04 C05 C06 C07 C08 C09 C10 C11 C12 C13 C14 C15 C17 C18}; do
  s=$(date +%s)
  ./verif check $id --tier $TIER > /tmp/runall_$id.log 2>&1; rc=$?
  e=$(date +%s)
  echo "$id exit=$rc wall=$((e-s))s $(grep -c '^KNOWN-FINDING' /tmp/runall_$id.log) known | $(tail -1 /tmp/runall_$id.log | cut -c1-200)"
done
