#!/bin/bash
# second thorough pass: record-mode for the hash-alias properties, then the others
cd /verif
TIER=thorough ./recordshapes.sh C01 C02 C04 C05 C07 C08 > /tmp/thorough2_record.log 2>&1
for id in C03 C06 C09 C10 C14 C15 C17 C18 C13 C11 C12; do
  s=$(date +%s)
  timeout 9000 ./verif check $id --tier thorough > /tmp/thorough2_$id.log 2>&1; rc=$?
  echo "THOROUGH2 $id exit=$rc wall=$(( $(date +%s)-s ))s $(grep -v '^KNOWN' /tmp/thorough2_$id.log | tail -1 | cut -c1-200)"
done
