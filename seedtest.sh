#!/bin/bash
# seedtest.sh <seed-dir-under-/verif/seeded> <property> [tier]
# Confirms a seeded change (compiles, existing tests pass, demo fails with / passes without),
# then applies it to /repo, runs the property's check, and reverts.
set -u
S=/verif/seeded/$1; P=$2; TIER=${3:-quick}
export GOFLAGS=-mod=mod GOPROXY=off
WT=$(mktemp -d /tmp/seedwt_XXXX); rmdir $WT
git -C /repo worktree add -q $WT HEAD || exit 2
cleanup() { git -C /repo worktree remove --force $WT 2>/dev/null; }
trap cleanup EXIT
DEMO=$(ls $S/*_test.go | head -1); PKG=$(cat $S/pkgdir 2>/dev/null || echo v2)
if [ "${SKIP_CONFIRM:-0}" != 1 ]; then
  cp $DEMO $WT/$PKG/
  (cd $WT/$PKG && go test -vet=off -count=1 -run TestSeedDemo . >/tmp/seed_demo_clean.log 2>&1) && echo "CONFIRM demo passes on unchanged tree" || { echo "CONFIRM-FAIL demo fails on unchanged tree"; tail -5 /tmp/seed_demo_clean.log; }
  git -C $WT apply $S/patch.diff || { echo "CONFIRM-FAIL patch does not apply"; exit 2; }
  (cd $WT/$PKG && go test -vet=off -count=1 -run TestSeedDemo . >/tmp/seed_demo_seeded.log 2>&1) && echo "CONFIRM-FAIL demo passes WITH the change" || echo "CONFIRM demo fails with the change"
  rm $WT/$PKG/$(basename $DEMO)
  (cd $WT/v2 && go test -vet=off -count=1 . ./jd >/tmp/seed_suite.log 2>&1 && cd $WT && go test -vet=off -count=1 . ./lib >>/tmp/seed_suite.log 2>&1) && echo "CONFIRM existing tests pass with the change" || { echo "CONFIRM-FAIL existing tests fail with the change"; tail -5 /tmp/seed_suite.log; }
fi
# the check runs against the scratch worktree (VERIF_REPO), /repo itself is not touched
if [ "${SKIP_CONFIRM:-0}" = 1 ]; then git -C $WT apply $S/patch.diff || exit 2; fi
OUTD=$(mktemp -d /tmp/seedout_XXXX)
cd /verif && VERIF_REPO=$WT VERIF_OUT=$OUTD timeout 3000 ./verif check $P --tier $TIER > /tmp/seed_check_$1.log 2>&1; rc=$?
cp /tmp/seed_check_$1.log /tmp/seed_check.log; rm -rf $OUTD
echo "CHECK $P $TIER exit=$rc"; grep -c "^VIOLATION" /tmp/seed_check.log; grep "^VIOLATION\|engine:\|BROKEN\|INCONCL" /tmp/seed_check.log | head -6 | cut -c1-300
