"""verif selftest: validation of the machinery itself (DESIGN.md sections 4.3, 4.4, 10.1).

 1. translator validation: the concrete corpus is executed by the engine (no symbolic input)
    and natively; every observation must be byte-identical;
 2. canaries: every Verif*Canary entry must yield a counterexample that reproduces natively;
 3. rewrite lemmas used by the term simplifier, discharged by z3 and cvc5.
Exit 0 if everything holds, 2 otherwise.
"""
import subprocess
import sys
import time

CANARIES = {
    "v2": ["VerifC01Canary", "VerifC02Canary", "VerifC03Canary", "VerifC04Canary", "VerifC06Canary", "VerifC07Canary",
           "VerifC08Canary", "VerifC09Canary", "VerifC10Canary", "VerifC11Canary", "VerifC12Canary", "VerifC13Canary",
           "VerifC15Canary"],
    "lib": ["VerifC17Canary", "VerifC18Canary"],
    "cli_v2": ["VerifC14Canary"],
    "cli_root": ["VerifC14Canary"],
}

FIN = "(not (= ((_ extract 62 52) {v}) #b11111111111))"
LEMMAS = [
    ("fp.eq on finite bit patterns is 'bits equal or both zero'",
     "(declare-const x (_ BitVec 64)) (declare-const y (_ BitVec 64))"
     "(assert " + FIN.format(v="x") + ")(assert " + FIN.format(v="y") + ")"
     "(assert (not (= (fp.eq ((_ to_fp 11 53) x) ((_ to_fp 11 53) y)) (or (= x y) (= (bvshl (bvor x y) #x0000000000000001) #x0000000000000000)))))"),
    ("|x-y| <= +0 on finite operands is x == y",
     "(declare-const x (_ BitVec 64)) (declare-const y (_ BitVec 64))"
     "(assert " + FIN.format(v="x") + ")(assert " + FIN.format(v="y") + ")"
     "(assert (not (= (fp.leq (fp.abs (fp.sub RNE ((_ to_fp 11 53) x) ((_ to_fp 11 53) y))) ((_ to_fp 11 53) #x0000000000000000)) (fp.eq ((_ to_fp 11 53) x) ((_ to_fp 11 53) y)))))"),
    ("int -> float64 -> int is the identity below 2^52",
     "(declare-const i (_ BitVec 64))"
     "(assert (bvslt i #x0010000000000000))(assert (bvslt #xfff0000000000000 i))"
     "(assert (not (= ((_ fp.to_sbv 64) RTZ ((_ to_fp 11 53) RNE i)) i)))"),
    ("equal small integers give equal floats and vice versa",
     "(declare-const i (_ BitVec 64)) (declare-const j (_ BitVec 64))"
     "(assert (bvslt i #x0010000000000000))(assert (bvslt #xfff0000000000000 i))"
     "(assert (bvslt j #x0010000000000000))(assert (bvslt #xfff0000000000000 j))"
     "(assert (not (= (fp.eq ((_ to_fp 11 53) RNE i) ((_ to_fp 11 53) RNE j)) (= i j))))"),
]


def run_solver(argv, text, timeout):
    try:
        r = subprocess.run(argv, input=text, stdout=subprocess.PIPE, stderr=subprocess.STDOUT, text=True, timeout=timeout)
        out = r.stdout.strip().split("\n")[-1] if r.stdout.strip() else "?"
        return out
    except subprocess.TimeoutExpired:
        return "timeout"


def main(drv):
    t0 = time.time()
    bad = []
    if drv.engine_stale() and not drv.build():
        print("engine build failed")
        return 2
    # 1. translator validation
    for pkg, entries in (("v2", ["VerifSelfCorpus", "VerifSelfCodec"]), ("lib", ["VerifSelfCorpusLib"])):
        res, err = drv.run_engine(pkg, entries, {}, set(), 1, 100000, 1800)
        if err:
            bad.append("corpus run: " + err)
            continue
        for er in res["entries"]:
            smp = er.get("samples") or []
            if er["status"].get("ok", 0) != er["paths"] or not smp:
                bad.append("%s: engine status %s" % (er["entry"], er["status"]))
            outs = drv.native_replay(pkg, [drv.case_of(s, er["entry"]) for s in smp], set(), {})
            mism = 0
            for s, o in zip(smp, outs):
                eo = [(x["Label"], x["Text"]) for x in (s.get("observe") or [])]
                no = [(a, b) for a, b in (o.get("observe") or [])]
                if o["status"] != "ok" or eo != no:
                    mism += 1
                    if mism <= 3:
                        bad.append("%s: engine/native mismatch inputs=%s\n   engine=%s\n   native=%s %s" % (er["entry"], s["pretty"], eo, o["status"], no))
            print("translator validation %s: %d concrete paths executed by the engine, %d compared natively, %d mismatches" % (
                er["entry"], er["paths"], len(smp), mism))
    # 2. canaries
    for pkg, entries in CANARIES.items():
        res, err = drv.run_engine(pkg, entries, {}, set(), 1, 0, 600)
        if err:
            bad.append("canary run %s: %s" % (pkg, err))
            continue
        for er in res["entries"]:
            viol = er.get("violations") or []
            if not viol:
                bad.append("canary %s was NOT violated (vacuous harness?)" % er["entry"])
                continue
            outs = drv.native_replay(pkg, [drv.case_of(v, er["entry"]) for v in viol], set(), {})
            ok = any(o["status"] in ("assert", "panic") for o in outs)
            print("canary %s: %d counterexamples, reproduced natively: %s" % (er["entry"], len(viol), ok))
            if not ok:
                bad.append("canary %s: counterexample does not reproduce natively" % er["entry"])
    # 3. lemmas
    for name, body in LEMMAS:
        text = body + "(check-sat)\n"
        a = run_solver(["cvc5", "--lang=smt2", "--fp-exp"], "(set-logic ALL)" + text, 300)
        b = run_solver(["z3", "-in", "-T:300"], text, 320)
        print("lemma [%s]: cvc5=%s z3=%s" % (name, a, b))
        if "unsat" not in (a, b):
            bad.append("lemma not discharged: " + name)
        if "sat" in (a, b):
            bad.append("lemma REFUTED: " + name)
    # 4. cross-solver: the whole solver dialogue of one worker is replayed on the other solvers
    import os, tempfile
    import os as _os
    crosslist = (("v2", "VerifC04Pair", {"N": 1}), ("v2", "VerifC01Flat", {"N": 2}), ("v2", "VerifC03Hunk", {"N": 2}))
    if _os.environ.get("VERIF_SELFTEST_FAST"):
        crosslist = ()
    for pkg, entry, params in crosslist:
        with tempfile.TemporaryDirectory(prefix="verif_") as td:
            logp = os.path.join(td, "dialogue.smt2")
            res, err = drv.run_engine(pkg, [entry], params, {"hash.alias"}, 1, 0, 900, workers=1, extra=["-solverlog", logp])
            if err:
                bad.append("solverdiff run: " + err)
                continue
            lines = [l for l in open(logp) if not l.startswith("; <<")]
            text = "".join(lines)
            def answers(argv, pre=""):
                r = subprocess.run(argv, input=pre + text, stdout=subprocess.PIPE, stderr=subprocess.STDOUT, text=True, timeout=1800)
                return [l.strip() for l in r.stdout.split("\n") if l.strip() in ("sat", "unsat", "unknown")], ("(error" in r.stdout)
            gd = "(set-option :global-declarations true)\n"
            # per-query time limits as in the engine (an answer of "unknown" is not a disagreement)
            ref, e0 = answers(["z3", "-in", "-t:10000"], gd + "(set-option :produce-models true)\n")
            for name, argv, pre in (("z3-new", ["z3-new", "-in", "-t:10000"], gd + "(set-option :produce-models true)\n"), ("cvc5", ["cvc5", "--incremental", "--lang=smt2", "--produce-models", "--fp-exp", "--tlimit-per=10000"], gd + "(set-logic ALL)\n")):
                got, e1 = answers(argv, pre)
                n = min(len(ref), len(got))
                diff = sum(1 for i in range(n) if ref[i] != got[i] and "unknown" not in (ref[i], got[i]))
                print("solverdiff %s: %d check-sat answers, z3 4.8.12 vs %s: %d disagreements%s" % (entry, len(ref), name, diff, " (error lines seen)" if (e0 or e1) else ""))
                if diff or len(ref) != len(got) or e0 or e1:
                    bad.append("solver disagreement on %s between z3 and %s (%d of %d; lengths %d/%d)" % (entry, name, diff, n, len(ref), len(got)))
    for b in bad:
        print("SELFTEST-FAIL:", b)
    print("selftest %s in %.0fs" % ("FAILED" if bad else "passed", time.time() - t0))
    return 2 if bad else 0
