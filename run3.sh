#!/bin/bash
ov=""
for f in /verif/harness/cli_v2/*.go; do b=$(basename $f); case $b in *_test.go) continue;; esac; ov="$ov -overlay /repo/v2/jd/zz_verif_$b=$f"; done
exec /verif/bin/gosym -dir /repo/v2/jd $ov "$@"
