#!/bin/bash
# Development only: re-record the site/length shapes of the hash-alias finding on the UNCHANGED
# tree (quick tier of every property that lists the finding). The result is reviewed and
# committed as findings/hash-alias-shapes.txt; no registered command writes that file.
cd /verif
rec=$(mktemp /tmp/shapes_XXXX); touch findings/hash-alias-shapes.txt
for id in ${@:-C01 C02 C04 C05 C07 C08}; do
  out=$(mktemp -d /tmp/recout_XXXX)
  VERIF_RECORD_SHAPES=$rec VERIF_OUT=$out timeout 7200 ./verif check $id --tier ${TIER:-quick} 2>&1 | grep -v "^KNOWN" | tail -1 | cut -c1-160
  rm -rf $out
done
sort -u $rec findings/hash-alias-shapes.txt 2>/dev/null > /tmp/shapes_merged && mv /tmp/shapes_merged findings/hash-alias-shapes.txt
rm -f $rec; wc -l findings/hash-alias-shapes.txt
